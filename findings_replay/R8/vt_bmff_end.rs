use c2pa::jumbf_io::{load_jumbf_from_memory, save_jumbf_to_memory};

const C2PA_UUID: [u8; 16] = [0xd8, 0xfe, 0xc3, 0xd6, 0x1b, 0x0e, 0x48, 0x3c, 0x92, 0x97, 0x58, 0x28, 0x87, 0x7e, 0xc4, 0x81];

fn find(h: &[u8], n: &[u8]) -> Option<usize> { h.windows(n.len()).position(|w| w == n) }
fn be32(b: &[u8]) -> u32 { u32::from_be_bytes([b[0], b[1], b[2], b[3]]) }
fn stco(d: &[u8]) -> Vec<u32> {
    let p = find(d, b"stco").unwrap();
    let n = be32(&d[p + 8..]) as usize;
    (0..n).map(|i| be32(&d[p + 12 + 4 * i..])).collect()
}

#[test]
fn bmff_c2pa_box_at_end_replace_keeps_offsets() {
    let p = format!("{}/tests/fixtures/video1_no_manifest.mp4", env!("CARGO_MANIFEST_DIR"));
    let d0 = std::fs::read(&p).unwrap();
    let s1 = vec![0x11u8; 1000];
    let s2 = vec![0x22u8; 5000];
    let d1 = save_jumbf_to_memory("mp4", &d0, &s1).unwrap();
    // cut the C2PA uuid box out of d1
    let mut q = 0;
    let (bs, be) = loop {
        let u = q + find(&d1[q..], b"uuid").unwrap();
        if d1[u + 4..u + 20] == C2PA_UUID { let st = u - 4; break (st, st + be32(&d1[st..]) as usize); }
        q = u + 4;
    };
    // original media followed by the C2PA box: media data located BEFORE the manifest
    let mut d2 = d0.clone();
    d2.extend_from_slice(&d1[bs..be]);
    assert_eq!(load_jumbf_from_memory("mp4", &d2).unwrap(), s1);
    let d3 = save_jumbf_to_memory("mp4", &d2, &s2).unwrap();
    assert_eq!(load_jumbf_from_memory("mp4", &d3).unwrap(), s2);
    let mdat0 = find(&d0, b"mdat").unwrap();
    let mdat3 = find(&d3, b"mdat").unwrap();
    println!("mdat at {} -> {}; stco[0..3] {:?} -> {:?}", mdat0, mdat3, &stco(&d0)[..3], &stco(&d3)[..3]);
    assert_eq!(mdat0, mdat3, "media data did not move");
    assert_eq!(stco(&d0), stco(&d3), "chunk offsets must still address the same media bytes");
}
