// Demonstration for candidate R6: fragment mode writes into an existing output
// directory and overwrites files there without --force.
#![cfg(not(target_os = "wasi"))]
use std::{
    fs,
    path::{Path, PathBuf},
    process::Command,
};

use assert_cmd::cargo;

const SENTINEL: &[u8] = b"PRE-EXISTING USER DATA - must not be overwritten without --force\n";
const INIT: &str = "BigBuckBunny_2s_init.mp4";
const FRAGS: [&str; 3] = [
    "BigBuckBunny_2s1.m4s",
    "BigBuckBunny_2s10.m4s",
    "BigBuckBunny_2s11.m4s",
];

fn describe(p: &Path) -> String {
    match fs::read(p) {
        Ok(data) => format!(
            "{} size={} is_sentinel={}",
            p.file_name().unwrap().to_string_lossy(),
            data.len(),
            data == SENTINEL
        ),
        Err(_) => format!("{} (absent)", p.file_name().unwrap().to_string_lossy()),
    }
}

fn err_line(stderr: &[u8]) -> String {
    String::from_utf8_lossy(stderr)
        .lines()
        .find(|l| l.starts_with("Error"))
        .unwrap_or("")
        .to_string()
}

/// Runs c2patool in fragment mode (no --force) against `out`, where `pre_existing`
/// names files pre-created (with sentinel content) in out/bunny_89283bps/.
/// Returns (exit_ok, number of pre-existing files whose content changed).
fn run_variant(tag: &str, root: &Path, pre_existing: &[&str]) -> (bool, usize) {
    let fixtures = PathBuf::from(env!("CARGO_MANIFEST_DIR"))
        .join("../sdk/tests/fixtures/bunny/bunny_89283bps");
    let src = root.join(tag).join("src/bunny_89283bps");
    fs::create_dir_all(&src).unwrap();
    fs::copy(fixtures.join(INIT), src.join(INIT)).unwrap();
    for n in FRAGS {
        fs::copy(fixtures.join(n), src.join(n)).unwrap();
    }
    // manifest without a time-stamp authority (no network)
    let manifest = root.join(tag).join("manifest.json");
    fs::write(
        &manifest,
        r#"{"claim_generator_info":[{"name":"replay","version":"1.0"}],"title":"r6","assertions":[]}"#,
    )
    .unwrap();

    // EXISTING output directory
    let out = root.join(tag).join("out");
    let out_rend = out.join("bunny_89283bps");
    fs::create_dir_all(&out).unwrap();
    fs::write(out.join("unrelated.txt"), SENTINEL).unwrap();
    if !pre_existing.is_empty() {
        fs::create_dir_all(&out_rend).unwrap();
    }
    for n in pre_existing {
        fs::write(out_rend.join(n), SENTINEL).unwrap();
    }

    println!("R6[{tag}] pre-existing in out/bunny_89283bps: {pre_existing:?} (out/ itself exists, holds unrelated.txt)");
    let mut cmd = Command::new(cargo::cargo_bin!("c2patool"));
    cmd.arg(src.join(INIT))
        .arg("-m")
        .arg(&manifest)
        .arg("-o")
        .arg(&out)
        .arg("--create")
        .arg("http://cv.iptc.org/newscodes/digitalsourcetype/digitalCapture")
        .arg("fragment")
        .arg("--fragments_glob")
        .arg("BigBuckBunny_2s*[0-9].m4s");
    println!("R6[{tag}] command: {cmd:?}");
    let res = cmd.output().unwrap();
    println!(
        "R6[{tag}] exit={:?} error={:?}",
        res.status.code(),
        err_line(&res.stderr)
    );
    let mut changed = 0;
    for n in std::iter::once(INIT).chain(FRAGS) {
        let p = out_rend.join(n);
        println!("R6[{tag}]   after: {}", describe(&p));
        if pre_existing.contains(&n) && fs::read(&p).unwrap() != SENTINEL {
            changed += 1;
        }
    }
    println!("R6[{tag}]   after: {}", describe(&out.join("unrelated.txt")));
    println!(
        "R6[{tag}] pre-existing files overwritten without --force = {changed}/{}",
        pre_existing.len()
    );
    println!();
    (res.status.success(), changed)
}

#[test]
fn r6_fragment_mode_existing_output_without_force() {
    let tmp = tempfile::tempdir().unwrap();
    let root = tmp.path();

    // control: normal (non-fragment) mode refuses to overwrite an existing output without -f
    let manifest = root.join("m.json");
    fs::write(
        &manifest,
        r#"{"claim_generator_info":[{"name":"replay","version":"1.0"}],"assertions":[]}"#,
    )
    .unwrap();
    let existing_jpg = root.join("existing.jpg");
    fs::write(&existing_jpg, SENTINEL).unwrap();
    let ctl = Command::new(cargo::cargo_bin!("c2patool"))
        .arg(PathBuf::from(env!("CARGO_MANIFEST_DIR")).join("tests/fixtures/earth_apollo17.jpg"))
        .arg("-m")
        .arg(&manifest)
        .arg("-o")
        .arg(&existing_jpg)
        .output()
        .unwrap();
    println!(
        "R6[control single-file mode, existing output, no -f] exit={:?} error={:?} ; {}",
        ctl.status.code(),
        err_line(&ctl.stderr),
        describe(&existing_jpg)
    );
    println!();

    let v1 = run_variant("V1-empty-existing-dir", root, &[]);
    let v2 = run_variant("V2-init-preexists", root, &[INIT]);
    let v3 = run_variant("V3-init-and-fragments-preexist", root, &[INIT, FRAGS[0], FRAGS[1], FRAGS[2]]);
    println!("R6 summary: V1 (ok,overwritten)={v1:?}  V2={v2:?}  V3={v3:?}");
}
