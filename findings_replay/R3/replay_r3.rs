// Demonstration for candidate R3.
#![allow(clippy::unwrap_used, clippy::expect_used, clippy::panic)]

use std::{
    io::{Cursor, Read},
    sync::{
        atomic::{AtomicUsize, Ordering},
        Arc, Mutex,
    },
};

use http::{Request, Response};

use super::fetch_ocsp_response;
use crate::{
    context::{Context, ProgressPhase},
    crypto::cose::{cert_chain_from_sign1, get_ocsp_der, parse_cose_sign1},
    http::{HttpResolverError, SyncHttpResolver},
    status_tracker::StatusTracker,
    store::Store,
    utils::test::{fixture_path, test_settings},
    Reader,
};

/// Resolver that counts requests and answers 200 with a fixed body.
struct CountingResolver {
    hits: Arc<AtomicUsize>,
    urls: Arc<Mutex<Vec<String>>>,
    body: Vec<u8>,
}

impl SyncHttpResolver for CountingResolver {
    fn http_resolve(
        &self,
        request: Request<Vec<u8>>,
    ) -> Result<Response<Box<dyn Read>>, HttpResolverError> {
        self.hits.fetch_add(1, Ordering::SeqCst);
        self.urls.lock().unwrap().push(request.uri().to_string());
        let body: Box<dyn Read> = Box::new(Cursor::new(self.body.clone()));
        Ok(Response::builder().status(200).body(body).unwrap())
    }
}

/// AIA OCSP URLs as actually requested by the unmodified fetch_ocsp_response
/// (observed through the counting resolver, with no progress callback).
fn process_ocsp_responders_urls(certs: &[Vec<u8>]) -> Vec<String> {
    let urls = Arc::new(Mutex::new(Vec::new()));
    let ctx = Context::new()
        .with_resolver(CountingResolver {
            hits: Arc::new(AtomicUsize::new(0)),
            urls: urls.clone(),
            body: vec![],
        });
    let _ = fetch_ocsp_response(certs, &ctx);
    let v = urls.lock().unwrap().clone();
    v.into_iter().map(|u| u.chars().take(60).collect()).collect()
}

fn signer_chain_of(fixture: &str) -> Option<(Vec<Vec<u8>>, bool)> {
    let path = fixture_path(fixture);
    let format = crate::format_from_path(&path)?;
    let mut f = std::fs::File::open(&path).ok()?;
    let mut log = StatusTracker::default();
    let ctx = Context::new()
        .with_settings(test_settings().with_value("verify.verify_after_reading", false).ok()?)
        .ok()?;
    let store = Store::from_stream(&format, &mut f, &mut log, &ctx).ok()?;
    let claim = store.provenance_claim()?;
    let data = claim.data().ok()?;
    let sign1 = parse_cose_sign1(claim.signature_val(), &data, &mut log).ok()?;
    let stapled = get_ocsp_der(&sign1).is_some();
    Some((cert_chain_from_sign1(&sign1).ok()?, stapled))
}

#[test]
fn r3_probe_fixtures() {
    for entry in std::fs::read_dir(fixture_path("")).unwrap() {
        let p = entry.unwrap().path();
        if !p.is_file() {
            continue;
        }
        let name = p.file_name().unwrap().to_string_lossy().to_string();
        let r = std::panic::catch_unwind(|| signer_chain_of(&name));
        if let Ok(Some((certs, stapled))) = r {
            let urls = process_ocsp_responders_urls(&certs);
            println!("PROBE {name}: chain_len={} stapled_ocsp={stapled} aia_ocsp={urls:?}", certs.len());
        }
    }
}

#[test]
fn r3_fetch_ocsp_response_swallows_cancellation() {
    let fixture = std::env::var("R3_FIXTURE").unwrap_or_else(|_| "ocsp.jpg".to_string());
    let (certs, stapled) = signer_chain_of(&fixture).expect("cert chain");
    println!(
        "R3 fixture={fixture} chain_len={} stapled_ocsp={stapled} aia_ocsp_urls={:?}",
        certs.len(),
        process_ocsp_responders_urls(&certs)
    );

    // (a) baseline: callback returns true -> a request is made, Some(body) returned.
    let hits = Arc::new(AtomicUsize::new(0));
    let urls = Arc::new(Mutex::new(Vec::new()));
    let phases = Arc::new(Mutex::new(Vec::new()));
    let p2 = phases.clone();
    let ctx = Context::new()
        .with_resolver(CountingResolver {
            hits: hits.clone(),
            urls: urls.clone(),
            body: b"FAKE-OCSP".to_vec(),
        })
        .with_progress_callback(move |phase, step, total| {
            p2.lock().unwrap().push((phase, step, total));
            true
        });
    let r = fetch_ocsp_response(&certs, &ctx);
    println!(
        "R3 (a) callback=true : result={:?} hits={} phases={:?}",
        r.as_ref().map(|v| String::from_utf8_lossy(v).to_string()),
        hits.load(Ordering::SeqCst),
        phases.lock().unwrap()
    );
    println!("R3 (a) requested urls = {:?}", urls.lock().unwrap());
    assert!(r.is_some());
    assert_eq!(hits.load(Ordering::SeqCst), 1);

    // (b) callback returns false -> check_progress yields Err(OperationCancelled)
    let hits = Arc::new(AtomicUsize::new(0));
    let urls = Arc::new(Mutex::new(Vec::new()));
    let ctx = Context::new()
        .with_resolver(CountingResolver {
            hits: hits.clone(),
            urls: urls.clone(),
            body: b"FAKE-OCSP".to_vec(),
        })
        .with_progress_callback(|_, _, _| false);
    println!(
        "R3 (b) context.check_progress(FetchingOCSP,1,1) = {:?}",
        ctx.check_progress(ProgressPhase::FetchingOCSP, 1, 1)
    );
    let r = fetch_ocsp_response(&certs, &ctx);
    println!(
        "R3 (b) callback=false: fetch_ocsp_response result={:?} hits={}",
        r,
        hits.load(Ordering::SeqCst)
    );
    assert!(r.is_none(), "expected None");
    assert_eq!(hits.load(Ordering::SeqCst), 0, "expected no HTTP request");
}

#[test]
fn r3_end_to_end_reader_succeeds_despite_cancel_in_fetching_ocsp() {
    let fixture = std::env::var("R3_FIXTURE").unwrap_or_else(|_| "ocsp.jpg".to_string());
    let path = fixture_path(&fixture);
    let format = crate::format_from_path(&path).unwrap();

    let hits = Arc::new(AtomicUsize::new(0));
    let urls = Arc::new(Mutex::new(Vec::new()));
    let phases = Arc::new(Mutex::new(Vec::new()));
    let p2 = phases.clone();
    let settings = test_settings()
        .with_value("verify.ocsp_fetch", true)
        .unwrap();
    let ctx = Context::new()
        .with_settings(settings)
        .unwrap()
        .with_resolver(CountingResolver {
            hits: hits.clone(),
            urls: urls.clone(),
            body: b"FAKE-OCSP".to_vec(),
        })
        .with_progress_callback(move |phase, step, total| {
            p2.lock().unwrap().push((phase.clone(), step, total));
            // cancel ONLY in the FetchingOCSP phase
            !matches!(phase, ProgressPhase::FetchingOCSP)
        });

    let mut f = std::fs::File::open(&path).unwrap();
    let res = Reader::from_context(ctx).with_stream(&format, &mut f);
    let fetching: Vec<_> = phases
        .lock()
        .unwrap()
        .iter()
        .filter(|(p, _, _)| matches!(p, ProgressPhase::FetchingOCSP))
        .cloned()
        .collect();
    println!("R3 e2e fixture={fixture}");
    println!("R3 e2e FetchingOCSP callbacks (each returned false) = {fetching:?}");
    println!("R3 e2e resolver hits = {}", hits.load(Ordering::SeqCst));
    match &res {
        Ok(reader) => {
            println!("R3 e2e Reader result = Ok, validation_state={:?}", reader.validation_state());
            let codes: Vec<String> = reader
                .validation_results()
                .and_then(|r| r.active_manifest().cloned())
                .map(|am| {
                    am.success()
                        .iter()
                        .chain(am.informational().iter())
                        .chain(am.failure().iter())
                        .map(|s| s.code().to_string())
                        .collect()
                })
                .unwrap_or_default();
            println!("R3 e2e status codes = {codes:?}");
        }
        Err(e) => println!("R3 e2e Reader result = Err({e:?})"),
    }
    // control: same asset/settings, cancel in every phase EXCEPT FetchingOCSP's predecessor
    // phases -> i.e. cancel at the very first callback; cancellation is propagated there.
    let all_phases: Vec<_> = phases.lock().unwrap().iter().map(|(p, _, _)| format!("{p:?}")).collect();
    println!("R3 e2e all phases seen = {all_phases:?}");
    let ctx2 = Context::new()
        .with_settings(test_settings().with_value("verify.ocsp_fetch", true).unwrap())
        .unwrap()
        .with_resolver(CountingResolver { hits: hits.clone(), urls: urls.clone(), body: vec![] })
        .with_progress_callback(|phase, _, _| matches!(phase, ProgressPhase::FetchingOCSP));
    let mut f2 = std::fs::File::open(&path).unwrap();
    let res2 = Reader::from_context(ctx2).with_stream(&format, &mut f2);
    println!(
        "R3 e2e control (callback false for every phase except FetchingOCSP) -> {:?}",
        res2.as_ref().map(|_| "Ok").map_err(|e| format!("{e:?}"))
    );
    assert!(!fetching.is_empty(), "FetchingOCSP phase never reached for this fixture");
    assert!(res.is_ok(), "Reader returned an error (cancellation propagated)");
}
