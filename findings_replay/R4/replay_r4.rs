// Demonstration for candidate R4: a CAWG identity assertion whose referenced
// assertion hashes do not match the enclosing claim produces no cawg.* failure.
#![cfg(not(target_arch = "wasm32"))]

use std::io::Cursor;

use c2pa::{identity::IdentityAssertion, Builder, BuilderIntent, Context, Reader, Settings};

// Standard test settings, with tsa_url lines removed (no network in this environment).
fn test_settings() -> Settings {
    let t: String = include_str!("fixtures/test_settings.toml")
        .lines()
        .filter(|l| !l.starts_with("tsa_url"))
        .collect::<Vec<_>>()
        .join("\n");
    Settings::new().with_toml(&t).unwrap()
}

fn hex(b: &[u8]) -> String {
    b.iter().take(8).map(|x| format!("{x:02x}")).collect::<String>() + ".."
}

fn dump(tag: &str, reader: &Reader) {
    println!("{tag} validation_state = {:?}", reader.validation_state());
    let am = reader
        .validation_results()
        .and_then(|r| r.active_manifest().cloned())
        .expect("active manifest results");
    let f = |v: &[c2pa::validation_status::ValidationStatus]| -> Vec<String> {
        v.iter().map(|s| s.code().to_string()).collect()
    };
    println!("{tag} success codes       = {:?}", f(am.success()));
    println!("{tag} informational codes = {:?}", f(am.informational()));
    println!("{tag} failure codes       = {:?}", f(am.failure()));
    let cawg_fail: Vec<_> = am
        .failure()
        .iter()
        .filter(|s| s.code().starts_with("cawg."))
        .map(|s| s.code().to_string())
        .collect();
    println!("{tag} cawg.* FAILURE codes = {cawg_fail:?}");
    let m = reader.active_manifest().unwrap();
    let v: serde_json::Value = m.find_assertion("cawg.identity").unwrap();
    println!(
        "{tag} cawg.identity value keys as exposed by Reader = {:?}",
        v.as_object().map(|o| o.keys().cloned().collect::<Vec<_>>())
    );
    if let Some(refs) = v.pointer("/signer_payload/referenced_assertions").and_then(|r| r.as_array()) {
        for r in refs {
            let url = r["url"].as_str().unwrap().to_string();
            let h: Vec<u8> = r["hash"].as_array().unwrap().iter().map(|x| x.as_u64().unwrap() as u8).collect();
            let claim_hash = m
                .assertion_references()
                .find(|a| a.url().ends_with(url.rsplit('/').next().unwrap()))
                .map(|a| hex(&a.hash()));
            println!(
                "{tag} identity assertion references {url} hash={} ; claim lists hash={claim_hash:?}",
                hex(&h)
            );
        }
    }
}

#[test]
fn r4_transplanted_identity_assertion_no_cawg_failure() -> c2pa::Result<()> {
    let format = "image/jpeg";
    let tm = |allowed: &str| {
        serde_json::json!({"entries": {"cawg.ai_inference": {"use": allowed}}})
    };

    // ---- Asset A: genuinely signed with the CAWG X.509 identity signer.
    // (tsa_url lines removed: no network in this environment)
    let toml_text: String = include_str!("fixtures/test_settings_with_cawg_signing.toml")
        .lines()
        .filter(|l| !l.starts_with("tsa_url"))
        .collect::<Vec<_>>()
        .join("\n");
    let cawg_settings = Settings::new().with_toml(&toml_text)?;
    let ctx_a = Context::new().with_settings(cawg_settings)?.into_shared();
    let mut builder_a = Builder::from_shared_context(&ctx_a);
    builder_a.set_intent(BuilderIntent::Edit);
    builder_a.add_assertion("cawg.training-mining", &tm("notAllowed"))?;
    let mut src_a = Cursor::new(&include_bytes!("fixtures/earth_apollo17.jpg")[..]);
    let mut dst_a = Cursor::new(Vec::new());
    builder_a.sign(ctx_a.signer()?, format, &mut src_a, &mut dst_a)?;
    dst_a.set_position(0);
    let reader_a = Reader::from_shared_context(&ctx_a).with_stream(format, &mut dst_a)?;
    dump("A(genuine)", &reader_a);
    // Re-read A with core.decode_identity_assertions=false so the raw identity assertion (with its COSE
    // signature) is available rather than the post-validation summary.
    dst_a.set_position(0);
    let raw_ctx = Context::new()
        .with_settings(Settings::new().with_value("core.decode_identity_assertions", false)?)?;
    let raw_reader = Reader::from_context(raw_ctx).with_stream(format, &mut dst_a)?;
    let ia: IdentityAssertion = raw_reader
        .active_manifest()
        .unwrap()
        .find_assertion("cawg.identity")?;
    println!("raw identity assertion copied from A: {ia:?}");

    // ---- Asset B: different image, different training-mining content, signed by a
    // plain C2PA signer; A's identity assertion is copied in verbatim, so the hashes
    // in its signer_payload.referenced_assertions do not match B's claim.
    let ctx_b = Context::new().with_settings(test_settings())?.into_shared();
    let mut builder_b = Builder::from_shared_context(&ctx_b);
    builder_b.set_intent(BuilderIntent::Edit);
    builder_b.add_assertion("cawg.training-mining", &tm("allowed"))?;
    builder_b.add_assertion("cawg.identity", &ia)?;
    let mut src_b = Cursor::new(&include_bytes!("fixtures/CA.jpg")[..]);
    let mut dst_b = Cursor::new(Vec::new());
    builder_b.sign(ctx_b.signer()?, format, &mut src_b, &mut dst_b)?;
    dst_b.set_position(0);
    let reader_b = Reader::from_shared_context(&ctx_b).with_stream(format, &mut dst_b)?;
    println!();
    dump("B(transplant)", &reader_b);

    // Same asset through the explicit CawgValidator path (identity/validator.rs).
    dst_b.set_position(0);
    let ctx_v = Context::new().with_settings(
        test_settings().with_value("core.decode_identity_assertions", false)?,
    )?;
    let mut reader_v = Reader::from_context(ctx_v).with_stream(format, &mut dst_b)?;
    let vctx = Context::new().with_settings(test_settings())?;
    tokio::runtime::Runtime::new()?.block_on(
        reader_v.post_validate_async(&c2pa::identity::validator::CawgValidator::new(&vctx)),
    )?;
    let amv = reader_v.validation_results().unwrap().active_manifest().unwrap().clone();
    println!();
    println!("B via CawgValidator validation_state = {:?}", reader_v.validation_state());
    println!(
        "B via CawgValidator failure codes = {:?}",
        amv.failure().iter().map(|s| s.code().to_string()).collect::<Vec<_>>()
    );
    println!(
        "B via CawgValidator all cawg.* codes (success+info+failure) = {:?}",
        amv.success().iter().chain(amv.informational()).chain(amv.failure())
            .filter(|s| s.code().starts_with("cawg.")).map(|s| s.code().to_string()).collect::<Vec<_>>()
    );
    assert!(!amv.failure().iter().any(|s| s.code().starts_with("cawg.")));

    let am = reader_b
        .validation_results()
        .unwrap()
        .active_manifest()
        .unwrap()
        .clone();
    let any_cawg = am
        .failure()
        .iter()
        .chain(am.informational().iter())
        .chain(am.success().iter())
        .any(|s| s.code().starts_with("cawg."));
    println!("B(transplant) any cawg.* status at all = {any_cawg}");
    assert!(
        !am.failure().iter().any(|s| s.code().starts_with("cawg.")),
        "candidate not reproduced: a cawg.* failure was reported"
    );
    Ok(())
}
