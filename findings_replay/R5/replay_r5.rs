// Demonstration for candidate R5: the array returned by
// c2pa_reader_supported_mime_types is not tracked in the pointer registry, so a
// second c2pa_free_string_array on it is an undetected double free.
//
// The second free is only executed when R5_DOUBLE_FREE=1 (intended to be run
// under valgrind, which intercepts the allocator and reports instead of aborting).
#![allow(deprecated)]

use std::{
    ffi::{c_void, CStr},
    os::raw::c_char,
};

use c2pa_c::*;

unsafe fn last_error() -> String {
    let e = c2pa_error();
    let s = CStr::from_ptr(e).to_string_lossy().to_string();
    c2pa_free(e as *const c_void);
    s
}

#[test]
fn r5_string_array_not_tracked_and_double_free_undetected() {
    unsafe {
        let mut count: usize = 0;
        let arr = c2pa_reader_supported_mime_types(&mut count);
        assert!(!arr.is_null());
        let first = CStr::from_ptr(*arr).to_string_lossy().to_string();
        eprintln!("R5 array ptr={arr:p} count={count} first={first:?} (array buffer = {} bytes)", count * 8);

        // (1) Registry probe: the element strings ARE tracked, the array itself is NOT.
        //     c2pa_free() on an untracked pointer returns -1 and frees nothing.
        let rc_arr = c2pa_free(arr as *const c_void);
        eprintln!("R5 c2pa_free(array ptr) -> {rc_arr}; last error = {:?}", last_error());
        // a string element: tracked -> untrack/free succeeds (do this on a separate array
        // so the array used below stays intact)
        let mut c2: usize = 0;
        let arr2 = c2pa_builder_supported_mime_types(&mut c2);
        let s0 = *arr2 as *mut c_char;
        let rc_s_1 = c2pa_free(s0 as *const c_void);
        let rc_s_2 = c2pa_free(s0 as *const c_void);
        eprintln!("R5 c2pa_free(element string) first -> {rc_s_1}, second -> {rc_s_2} (string double free IS detected); last error = {:?}", last_error());
        // (arr2 intentionally leaked from here on; its element 0 is already freed)

        // (2) First, legitimate free of the array.
        c2pa_free_string_array(arr, count);
        eprintln!("R5 first  c2pa_free_string_array returned (); last error = {:?}", last_error());

        if std::env::var("R5_DOUBLE_FREE").as_deref() == Ok("1") {
            // (3) Second free of the same array: returns (), nothing the caller can check.
            c2pa_free_string_array(arr, count);
            eprintln!("R5 second c2pa_free_string_array returned (); last error = {:?}", last_error());
        } else {
            eprintln!("R5 second free skipped (set R5_DOUBLE_FREE=1 and run under valgrind)");
        }
    }
}
