// Replay for the C14 candidate: pad_cose_sig only reaches the reserved size when the padding is 256..65535 bytes long.
// Put under sdk/tests/ of a scratch copy: cargo test -p c2pa --offline --test vt_pad_window -- --nocapture
mod common;
use std::io::Cursor;

use c2pa::{Builder, Context, Settings};

const IMG: &[u8] = include_bytes!("fixtures/earth_apollo17.jpg");

fn try_sign(reserve: usize) -> Result<(), String> {
    let settings = Settings::default()
        .with_value("verify.verify_after_sign", false)
        .map_err(|e| e.to_string())?;
    let ctx = Context::new().with_settings(settings).map_err(|e| e.to_string())?;
    let mut builder = Builder::from_context(ctx);
    builder.definition.title = Some("t".into());
    let mut signer = common::test_signer();
    signer.reserve_size = reserve;
    let mut src = Cursor::new(IMG);
    let mut dst = Cursor::new(Vec::new());
    builder
        .sign(&signer, "image/jpeg", &mut src, &mut dst)
        .map(|_| ())
        .map_err(|e| format!("{e:?}"))
}

#[test]
fn reserve_larger_than_a_succeeding_reserve_never_fails() {
    // find the smallest reserve that succeeds
    let mut first_ok = None;
    let mut results = Vec::new();
    for reserve in 600..2200usize {
        let r = try_sign(reserve);
        if r.is_ok() && first_ok.is_none() {
            first_ok = Some(reserve);
        }
        results.push((reserve, r));
    }
    let first_ok = first_ok.expect("some reserve succeeds");
    let failing: Vec<_> = results
        .iter()
        .filter(|(r, res)| *r > first_ok && res.is_err())
        .map(|(r, res)| (*r, res.clone().unwrap_err()))
        .collect();
    println!("smallest succeeding reserve: {first_ok}");
    println!("larger reserves that fail: {} (first {:?}, last {:?})", failing.len(), failing.first(), failing.last());
    assert!(failing.is_empty(), "signing failed for reserves larger than a reserve that succeeds");
}
