// Demonstration for candidates R1 and R2 (allow-list not honoured by the
// settings-configured remote signer and by the default time-stamp request).
#![cfg(not(target_arch = "wasm32"))]

use std::io::Cursor;

use c2pa::{http::SyncHttpResolver, Builder, BuilderIntent, Context, Settings};
use httpmock::MockServer;

const CERT: &str = include_str!("fixtures/certs/es256.pub");
const KEY: &str = include_str!("fixtures/certs/es256.pem");
const IMAGE: &[u8] = include_bytes!("fixtures/CA.jpg");

/// Control: the Context's own resolver refuses the same URL.
fn control_resolver_refuses(context: &Context, url: &str) -> String {
    let req = http::Request::post(url).body(vec![1u8, 2, 3]).unwrap();
    match context.resolver().http_resolve(req) {
        Ok(r) => format!("Ok(status={})", r.status()),
        Err(e) => format!("Err({e:?})"),
    }
}

#[test]
fn r1_remote_signer_ignores_allowed_network_hosts() {
    let server = MockServer::start();
    let mock = server.mock(|when, then| {
        when.method(httpmock::Method::POST).path("/sign");
        then.status(200).body([0u8; 64]);
    });
    let url = server.url("/sign");

    let settings = Settings::new()
        .with_toml(
            &toml::toml! {
                [core]
                allowed_network_hosts = ["example.com"]

                [signer.remote]
                url = (url.clone())
                alg = "es256"
                sign_cert = (CERT)
            }
            .to_string(),
        )
        .unwrap();
    let context = Context::new().with_settings(settings).unwrap().into_shared();

    println!("R1 mock url = {url}");
    println!(
        "R1 control: context.resolver().http_resolve(POST {url}) -> {}",
        control_resolver_refuses(&context, &url)
    );
    println!("R1 hits after control = {}", mock.calls());

    // Direct call on the signer obtained from the Context.
    let direct = context.signer().unwrap().sign(b"hello");
    println!(
        "R1 context.signer().sign(..) -> {:?}",
        direct.as_ref().map(|v| v.len())
    );
    println!("R1 hits after direct sign = {}", mock.calls());

    // End to end through Builder::sign.
    let mut builder = Builder::from_shared_context(&context);
    builder.set_intent(BuilderIntent::Edit);
    let mut source = Cursor::new(IMAGE);
    let mut dest = Cursor::new(Vec::new());
    let res = builder.sign(context.signer().unwrap(), "image/jpeg", &mut source, &mut dest);
    println!("R1 Builder::sign -> {:?}", res.as_ref().map(|v| v.len()));
    println!("R1 hits after Builder::sign = {}", mock.calls());

    assert!(
        mock.calls() > 0,
        "candidate not reproduced: mock got 0 hits"
    );
}

#[test]
fn r2_default_timestamp_request_ignores_allowed_network_hosts() {
    let server = MockServer::start();
    let mock = server.mock(|when, then| {
        when.method(httpmock::Method::POST).path("/tsa");
        then.status(200)
            .header("content-type", "application/timestamp-reply")
            .body([0u8; 16]);
    });
    let url = server.url("/tsa");

    let settings = Settings::new()
        .with_toml(
            &toml::toml! {
                [core]
                allowed_network_hosts = ["example.com"]

                [signer.local]
                alg = "es256"
                sign_cert = (CERT)
                private_key = (KEY)
                tsa_url = (url.clone())
            }
            .to_string(),
        )
        .unwrap();
    let context = Context::new().with_settings(settings).unwrap().into_shared();

    println!("R2 mock url = {url}");
    println!(
        "R2 control: context.resolver().http_resolve(POST {url}) -> {}",
        control_resolver_refuses(&context, &url)
    );
    println!("R2 hits after control = {}", mock.calls());
    println!(
        "R2 signer.time_authority_url() = {:?}",
        context.signer().unwrap().time_authority_url()
    );

    let mut builder = Builder::from_shared_context(&context);
    builder.set_intent(BuilderIntent::Edit);
    let mut source = Cursor::new(IMAGE);
    let mut dest = Cursor::new(Vec::new());
    let res = builder.sign(context.signer().unwrap(), "image/jpeg", &mut source, &mut dest);
    println!("R2 Builder::sign -> {:?}", res.as_ref().map(|v| v.len()));
    println!("R2 hits after Builder::sign = {}", mock.calls());

    assert!(
        mock.calls() > 0,
        "candidate not reproduced: mock got 0 hits"
    );
}
