// Replay for the C07 finding "RIFF removal keeps the manifest" (fixed, see known_findings.json).
// Put under sdk/tests/ of a scratch copy and run: cargo test -p c2pa --features file_io --test vt_riff_remove --offline
use c2pa::jumbf_io::{load_jumbf_from_file, load_jumbf_from_memory, remove_jumbf_from_file, save_jumbf_to_memory};

#[test]
fn riff_remove_then_read() {
    for (fix, ext) in [("sample1.wav", "wav"), ("sample1.webp", "webp"), ("test.avi", "avi")] {
        let p = format!("{}/tests/fixtures/{}", env!("CARGO_MANIFEST_DIR"), fix);
        let data = std::fs::read(&p).unwrap();
        let store = vec![0x5au8; 1000];
        let with = save_jumbf_to_memory(ext, &data, &store).unwrap();
        assert_eq!(load_jumbf_from_memory(ext, &with).unwrap(), store);
        let dir = std::env::temp_dir().join(format!("vt_riff_{}", std::process::id()));
        std::fs::create_dir_all(&dir).unwrap();
        let f = dir.join(format!("x.{ext}"));
        std::fs::write(&f, &with).unwrap();
        remove_jumbf_from_file(&f).unwrap();
        let r = load_jumbf_from_file(&f);
        std::fs::remove_dir_all(&dir).ok();
        // before the fix: Ok(1000 bytes) for all three
        assert!(r.is_err(), "{fix}: manifest still present after removal");
    }
}
