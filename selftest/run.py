#!/usr/bin/env python3
"""Both-ways self-test of the checkers: each patch in selftest/patches/*.diff breaks one rule instance while still
compiling; applied to a scratch copy of /repo (outside /repo and /verif), the named check must exit 1 and its output
must match the expected regex.  Usage: run.py [name-substring ...]   (no args = all)"""
import json, os, re, shutil, subprocess, sys, tempfile, time
HERE = os.path.dirname(os.path.abspath(__file__))
VERIF = os.path.dirname(HERE)
REPO = os.environ.get('VERIF_REPO', '/repo')


def main():
    want = sys.argv[1:]
    specs = json.load(open(os.path.join(HERE, 'expect.json')))
    fails = 0
    ran = 0
    for name, sp in sorted(specs.items()):
        if want and not any(w in name for w in want):
            continue
        ran += 1
        tmp = tempfile.mkdtemp(prefix='vselftest_')
        try:
            scratch = os.path.join(tmp, 'repo')
            subprocess.run(['rsync', '-a', '--exclude', 'target', '--exclude', '.git', REPO + '/', scratch + '/'], check=True)
            r = subprocess.run(['patch', '-p1', '-s', '-i', os.path.join(HERE, 'patches', name + '.diff')], cwd=scratch, capture_output=True, text=True)
            if r.returncode != 0:
                print('SELFTEST %s: patch does not apply: %s' % (name, r.stdout[-300:] + r.stderr[-300:])); fails += 1; continue
            env = dict(os.environ, VERIF_REPO=scratch, VERIF_EVIDENCE_DIR=os.path.join(tmp, 'ev'))
            t0 = time.time()
            ok_all = True
            for pid in sp['checks']:
                r = subprocess.run([os.path.join(VERIF, 'vcheck'), pid, '--tier', 'quick'], env=env, capture_output=True, text=True, cwd=VERIF)
                out = r.stdout + r.stderr
                hit = r.returncode == 1 and re.search(sp['expect'], out) is not None
                print('SELFTEST %s / %s: %s (exit %d, %.0fs)' % (name, pid, 'detected' if hit else 'MISSED', r.returncode, time.time() - t0))
                if not hit:
                    ok_all = False
                    print(out[-1500:])
            if not ok_all:
                fails += 1
        finally:
            shutil.rmtree(tmp, ignore_errors=True)
    print('selftest: %d run, %d failed' % (ran, fails))
    return 1 if fails else 0


if __name__ == '__main__':
    sys.exit(main())
