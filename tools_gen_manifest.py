#!/usr/bin/env python3
"""Regenerates MANIFEST.json from rules/registry.py (single source of truth)."""
import json, os, sys
HERE = os.path.dirname(os.path.abspath(__file__))
sys.path.insert(0, os.path.join(HERE, 'rules'))
import registry
props = [json.loads(l) for l in open(os.path.join(HERE, 'properties.jsonl'))]
ids = [p['id'] for p in props]
checks = []
for pid in ids:
    if pid in registry.CLAIMED:
        c = registry.CLAIMED[pid]
        checks.append({
            'property_id': pid,
            'quick_cmd': './vcheck %s --tier quick' % pid,
            'thorough_cmd': './vcheck %s --tier thorough' % pid,
            'evidence_file': 'evidence/%s.json' % pid,
            'replay_cmd_template': 'cat {path}',
            'engine': 'E0+rules/%s.py' % pid,
            'level_claimed': {'category': 'other', 'text': c['text'], 'design_ref': 'DESIGN.md section ' + c['design']},
            'level_note': c['note'],
            'technique': c['technique'],
        })
na = []
for pid in ids:
    if pid not in registry.CLAIMED:
        na.append({'property_id': pid, 'reason': registry.NA_REASONS.get(pid, 'static check for this property is not built in this revision of /verif (see DESIGN.md section 5); not claimed')})
m = {
    'version': 1,
    'setup_cmd': './setup.sh',
    'hooks': {
        'guard': 'contentauth_c2pa_rs_verif',
        'enable': 'none needed: static analysis reads MIR of the unmodified sources (RUSTC_WORKSPACE_WRAPPER driver under cargo +nightly check); no hooks are compiled in',
        'baseline_off_cmd': 'cd /repo && cargo nextest run --workspace --no-fail-fast --tool-config-file pb:/w/lib/nextest.toml --profile pb --test-threads 8 --offline',
        'source_commits': [],
        'add_only': True,
    },
    'engines': [
        {'name': 'E0 fact extractor', 'path': 'driver/', 'serves_properties': sorted(registry.CLAIMED), 'kind_free_text': 'rustc_private driver dumping unoptimised MIR, ADTs, statics, impl tables of every workspace member'},
        {'name': 'E1-E6 rule engines', 'path': 'rules/', 'serves_properties': sorted(registry.CLAIMED), 'kind_free_text': 'python: path-sensitive guarded-effect engine, call-graph rules, result-discipline, sibling agreement, per-property tables'},
    ],
    'checks': checks,
    'not_applicable': na,
    'notes': 'Static analysis only; every check re-extracts facts from /repo\'s current working tree (cached by tree hash). See DESIGN.md.',
}
json.dump(m, open(os.path.join(HERE, 'MANIFEST.json'), 'w'), indent=1)
print('claimed', len(checks), 'not_applicable', len(na))
