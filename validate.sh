#!/bin/sh
# validates MANIFEST.json and every evidence file against the harness schemas (tooling venv has jsonschema)
python3-vt - <<'PY'
import json,jsonschema,glob
jsonschema.validate(json.load(open('/verif/MANIFEST.json')),json.load(open('/root/.vp/MANIFEST.schema.json')))
print('manifest valid')
s=json.load(open('/root/.vp/EVIDENCE.schema.json'))
for f in sorted(glob.glob('/verif/evidence/*.json')):
    jsonschema.validate(json.load(open(f)),s)
print('evidence valid', len(glob.glob('/verif/evidence/*.json')))
PY
