"""C36 Time-stamps are used only when they match the signature."""
import re
from lib import CallGuard, LocalGuard, loc, classify_ret
from terms import Terms
import logs
import oblig
from oblig import TermGuard
import decisions

EXPLANATION = ("All-paths MIR rules on verify_time_stamp (sync and async): a time-stamp token is returned (Ok(tst)) only in a loop iteration in which no "
               "timeStamp.{mismatch,malformed,untrusted,outsideValidity} status was logged (every such log is followed by `continue`/Err before the Ok return), "
               "timeStamp.validated is logged only on the true outcome of the message-imprint comparison against the data passed in, the CMS signature validation "
               "call lies on every path to Ok, and when verify_trust is set the trust check precedes timeStamp.trusted; validate_cose_tst_info hands "
               "verify_time_stamp the bytes derived from the same sign1 (signature for sigTst2, the to-be-signed data for sigTst); the decision table of "
               "verify_time_stamp and of the certificate-validity branch of check_certificate_profile agrees with the reviewed table. CMS/ASN.1 correctness is not decided.")
RULE = "obligation = (function, log site | Ok return, guard) ; plus decision-table rows"
BAD = {'timeStamp.mismatch', 'timeStamp.malformed', 'timeStamp.untrusted', 'timeStamp.outsideValidity'}


def run(ctx):
    prog = ctx.prog(('c2pa',))
    consts = logs.const_strings(prog)
    T = Terms(prog)
    for name in ('crypto::time_stamp::verify::verify_time_stamp', 'crypto::time_stamp::verify::verify_time_stamp_async::{closure#0}'):
        if not ctx.require(prog.has(name), name):
            continue
        fn = prog.fn(name)
        ctx.analysed(name, len(list(fn.calls())))
        sites = logs.log_sites(prog, fn, consts)
        bad = [s for s in sites if any(k == 'str' and v in BAD for k, v in s['codes'])]
        ctx.floor('timeStamp.* rejection log sites in ' + name.split('::')[-1], len(bad), 20, rule='C36-D1')
        okret = set(bi for bi, b in enumerate(fn.B) for dst, rv in b['s'] if dst['l'] == 0 and not dst['p'] and rv['k'] == 'agg' and rv.get('variant') == 'Ok')
        ctx.ob('C36-D1', name, 'return Ok(tst)', 'exists', bool(okret))
        nexts = set(bi for bi, t in fn.calls() if t['fd'] == 'std::iter::Iterator::next')
        for s in bad:
            start = fn.B[s['bi']]['t']['t']
            reach = fn.reachable(start, avoid=nexts) if start is not None else set()
            esc = reach & okret
            code = [v for k, v in s['codes'] if k == 'str'][0]
            ctx.ob('C36-D1', name, 'log ' + code, 'followed by continue/Err: Ok(tst) not reachable in the same iteration', not esc,
                   detail='' if not esc else 'after logging %s at %s control can still reach `return Ok(tst)`: the rejected token is used as the signing time' % (code, loc(s['span'])), site=loc(s['span']))
        val = set(s['bi'] for s in sites if ('str', 'timeStamp.validated') in s['codes'])
        tru = set(s['bi'] for s in sites if ('str', 'timeStamp.trusted') in s['codes'])
        ctx.ob('C36-D1', name, 'timeStamp.validated / timeStamp.trusted logs', 'present', bool(val) and bool(tru))
        g_imp = CallGuard(r'PartialEq::eq$', 'true', argpred=lambda f, bi, t: 'hashed_message' in T.call_term(f, bi), name='digest(data) == message imprint')
        oblig.effect_requires(ctx, 'C36-D1', fn, 'log timeStamp.validated', lambda bi, b, _v=val: bi in _v, [g_imp])
        oblig.effect_requires(ctx, 'C36-D1', fn, 'return Ok(tst)', lambda bi, b, _o=okret: bi in _o, [g_imp])
        # the digest compared is computed over the `data` argument
        for bi, t in fn.calls():
            if g_imp.matches_call(fn, bi, t):
                term = T.call_term(fn, bi)
                ctx.ob('C36-D1', name, 'message imprint comparison', 'digest of the data argument vs mi.hashed_message', 'hashed_message' in term and ('finish' in term or 'digest' in term.lower()), detail=term[:200], site=loc(t['span']))
        upd = [T.call_term(fn, bi) for bi, t in fn.calls() if t['fd'].endswith('Hasher::update') or t['fd'].endswith('::update')]
        ctx.ob('C36-D1', name, 'hasher.update(x)', 'x = data (the bytes passed in)', any(re.search(r'update\(.*,data\)', u) for u in upd), detail=str(upd)[:200])
        # CMS signature validation on every path to Ok
        sig = set(bi for bi, t in fn.calls() if t['fd'].endswith('validate_timestamp_sig'))
        ctx.ob('C36-D1', name, 'validate_timestamp_sig', 'called', bool(sig))
        if sig:
            oblig.must_pass_through(ctx, 'C36-D1', fn, lambda bi, b, _o=okret: bi in _o, lambda bi, b, _s=sig: bi in _s, 'return Ok(tst)', 'validate_timestamp_sig (CMS signature check)')
        # trust: timeStamp.trusted requires verify_trust = false or both trust checks not Err
        g_nt = LocalGuard('verify_trust', 'false', name='verify_trust = false')
        g_tr = CallGuard(r'CertificateTrustPolicy::check_certificate_trust(_async)?$', 'ok', name='check_certificate_trust(..) = Ok')
        oblig.effect_requires(ctx, 'C36-D1', fn, 'log timeStamp.trusted', lambda bi, b, _v=tru: bi in _v, [g_nt, g_tr])
        if '_async' not in name:
            decisions.compare(ctx, 'C36-D4', prog, T, fn, consts, 'C36_verify_time_stamp', k=3, bools=False, kinds=('failure', 'informational', 'success'))
    # D2 validate_cose_tst_info
    for name in ('crypto::cose::sigtst::validate_cose_tst_info', 'crypto::cose::sigtst::validate_cose_tst_info_async::{closure#0}'):
        if not ctx.require(prog.has(name), name):
            continue
        fn = prog.fn(name)
        ctx.analysed(name, len(list(fn.calls())))
        for bi, t in fn.calls():
            if re.search(r'parse_and_validate_sigtst(_async)?$', t['fd']):
                terms = set(T.origin_term(fn, o)[0] for o in fn.origins(t['args'][1]))
                wr = [T.call_term(fn, b2) for b2, t2 in fn.calls() if t2['fd'].endswith('into_writer')]
                sigw = any(re.search(r'ByteBuf::from\(.*sign1\.\d', w) or 'signature' in w for w in wr)
                ok = terms <= {'data', 'Vec::new()'} and 'data' in terms and sigw
                ctx.ob('C36-D2', name, 'parse_and_validate_sigtst(.., tbs, ..)', 'tbs ∈ {data (sigTst), cbor(sign1.signature) (sigTst2)}', ok, detail=str(sorted(terms))[:200], site=loc(t['span']))
                prot = T.op_term(fn, t['args'][2])
                ctx.ob('C36-D2', name, 'parse_and_validate_sigtst(.., protected)', 'sign1.protected of the same sign1', prot.startswith('sign1.'), detail=prot[:80])
    # D3 certificate validity branch: decision table of check_certificate_profile (shared with C06-D6)
    ccp = 'crypto::cose::certificate_profile::check_certificate_profile'
    if prog.has(ccp):
        fn = prog.fn(ccp)
        decisions.compare(ctx, 'C36-D3', prog, T, fn, consts, 'C06_check_certificate_profile', k=4, bools=True)
        # the tst-based validity test is taken only on tst_info = Some
        sites = logs.log_sites(prog, fn, consts)
        exp = set(s['bi'] for s in sites if ('str', 'signingCredential.expired') in s['codes'])
        via = [bi for bi, t in fn.calls() if t['fd'].endswith('Validity::is_valid_at')]
        ctx.ob('C36-D3', ccp, 'Validity::is_valid_at call sites', '2 (time-stamp time, now)', len(via) == 2, detail=str(len(via)))
