"""C31 The C API never crashes or double-frees on handle misuse (E4 pointer discipline)."""
import re
import collections
from lib import CallGuard, loc, classify_ret, Engine, strip_ty
from terms import Terms
import oblig

EXPLANATION = ("All-paths MIR rule over every function of c2pa_c_ffi that takes a raw pointer (all extern \"C\" entry points and their helpers): "
               "each dereference of a value derived from a pointer parameter (place deref, CStr::from_ptr, slice::from_raw_parts, Box/Arc/CString::from_raw, "
               "Vec::from_raw_parts, ptr::read/write) must be dominated by `is_null = false` and, when the pointee is a tracked handle type (a type ever "
               "registered with track_box/track_arc), by validate_pointer::<T>/untrack_pointer::<T> = Ok with T equal to the cast target; reclaiming "
               "calls occur only under untrack_pointer = Ok or inside registry cleanup closures; every error-indicator return is preceded by set_last; "
               "returned raw pointers originate from track_*/to_c_string/to_c_bytes or are null.")
RULE = "obligation = (function, dereference/reclaim site, guard); non-trivial = a branch lies between entry and the site"

DEREF_CALLS = re.compile(r'^std::ffi::CStr::from_ptr$|^std::slice::from_raw_parts(_mut)?$|^std::boxed::Box::<T>::from_raw$|^std::sync::Arc::<T>::from_raw$|'
                         r'^std::ffi::CString::from_raw$|^std::vec::Vec::<T>::from_raw_parts$|^std::ptr::(read|write|read_unaligned|write_unaligned|copy|copy_nonoverlapping)$|'
                         r'^std::ptr::slice_from_raw_parts(_mut)?$|^std::sync::Arc::<T>::increment_strong_count$|^std::ptr::(mut_ptr|const_ptr)::<impl \*(mut|const) T>::(read|write|as_ref|as_mut|add|offset)$')
RECLAIM = re.compile(r'^std::boxed::Box::<T>::from_raw$|^std::sync::Arc::<T>::from_raw$|^std::ffi::CString::from_raw$|^std::vec::Vec::<T>::from_raw_parts$|^std::ptr::drop_in_place$')
NULLCHK = r'::is_null$'
TRACKERS = re.compile(r'^cimpl::utils::(track_box|track_arc|track_arc_mutex)$')


def ptr_ty(t):
    m = re.match(r'^\*(mut|const) (.*)$', t.strip())
    return m.group(2) if m else None


def arg_roots(fn, op):
    out = set()
    for o in fn.origins(op):
        if o[0] == 'arg':
            out.add(o[1])
        elif o[0] == 'field' and o[1][0] == 'arg':
            pass
    return out


def run(ctx):
    prog = ctx.prog(('c2pa_c',))
    T = Terms(prog)
    # tracked handle types
    tracked = set()
    for name in prog.fns():
        fn = prog.fn(name)
        for bi, t in fn.calls():
            if TRACKERS.search(t['fd']):
                m = re.search(r'::<(.*)>$', t['f'])
                if m:
                    tracked.add(m.group(1))
    ctx.floor('tracked handle types', len(tracked), 5, rule='C31-D1')
    ctx.note('tracked handle types: %s' % sorted(tracked))
    ext = [n for n in prog.fns() if prog.bodies[n].get('abi', '').startswith('C') and prog.bodies[n].get('no_mangle')]
    ctx.floor('extern "C" entry points', len(ext), 77, rule='C31-D1')
    nsites = 0
    for name in sorted(prog.fns()):
        d = prog.bodies[name]
        if d['kind'] == 'closure':
            continue
        fn = prog.fn(name)
        pparams = {k: ptr_ty(fn.local_ty(k)) for k in range(1, fn.argc + 1) if ptr_ty(fn.local_ty(k)) is not None}
        if not pparams:
            continue
        if name.startswith('c2pa_stream::TestC2paStream::'):
            continue   # in-crate test scaffolding (Rust-side callbacks invoked by C2paStream with its own context; not exported symbols)
        if name.startswith('cimpl::utils::PointerRegistry::') or name in ('cimpl::utils::validate_pointer', 'cimpl::utils::untrack_pointer', 'cimpl::utils::cimpl_free', 'cimpl::utils::safe_slice_from_raw_parts'):
            continue   # the registry implementation compares addresses only (checked in D5)
        ctx.analysed(name, len(list(fn.calls())))
        # effects
        effects = []   # (block, param, pointee type at site, description, is_call)
        for bi, b in enumerate(fn.B):
            for si, (dst, rv) in enumerate(b['s']):
                places = []
                if rv['k'] in ('ref', 'rawptr', 'discr'):
                    places.append(rv['pl'])
                for o in __import__('lib').rv_operands(rv):
                    if 'l' in o:
                        places.append(o)
                places.append(dst)
                for pl in places:
                    if '*' not in pl['p']:
                        continue
                    # only a deref directly of a raw-pointer-typed local counts
                    if pl['p'][0] != '*':
                        continue
                    pt = ptr_ty(fn.local_ty(pl['l']))
                    if pt is None:
                        continue
                    roots = arg_roots(fn, {'l': pl['l'], 'p': []})
                    for k in roots:
                        if k in pparams:
                            effects.append((bi, k, pt, 'deref *%s' % fn.name_of(k), False))
            t = b['t']
            if t['k'] == 'call' and DEREF_CALLS.search(t['fd']):
                for a in t['args'][:1]:
                    if 'l' not in a:
                        continue
                    for k in arg_roots(fn, a):
                        if k in pparams:
                            pt = ptr_ty(fn.local_ty(a['l'])) or pparams[k]
                            effects.append((bi, k, pt, t['fd'].split('::')[-2].replace('<T>', '') + '::' + t['fd'].split('::')[-1] + '(%s)' % fn.name_of(k), True))
        seen = set()
        for bi, k, pt, desc, is_call in effects:
            key = (bi, k, desc)
            if key in seen:
                continue
            seen.add(key)
            nsites += 1

            def ap(f, b2, t2, _k=k):
                return any(('l' in a) and (_k in arg_roots(f, a)) for a in t2['args'][:1])
            guards = []
            handle = pt in tracked or pparams[k] in tracked
            if handle:
                want_t = pt if pt in tracked else pparams[k]
                def apv(f, b2, t2, _k=k, _t=want_t):
                    return ap(f, b2, t2) and t2['f'].endswith('::<%s>' % _t)
                guards = [CallGuard(r'^cimpl::utils::validate_pointer$', 'ok', argpred=apv, name='validate_pointer::<%s>(%s) = Ok' % (want_t, fn.name_of(k))),
                          CallGuard(r'^cimpl::utils::untrack_pointer$', 'ok', argpred=apv, name='untrack_pointer::<%s>(%s) = Ok' % (want_t, fn.name_of(k)))]
            else:
                guards = [CallGuard(NULLCHK, 'false', argpred=ap, name='%s.is_null() = false' % fn.name_of(k)),
                          CallGuard(r'^cimpl::utils::validate_pointer$|^cimpl::utils::untrack_pointer$', 'ok', argpred=ap, name='validate/untrack(%s) = Ok' % fn.name_of(k)),
                          CallGuard(r'^cimpl::utils::safe_slice_from_raw_parts$', 'ok', argpred=ap, name='safe_slice_from_raw_parts(%s) = Ok' % fn.name_of(k))]
            rule = 'C31-D2' if (is_call and RECLAIM.search(fn.B[bi]['t']['fd'])) else 'C31-D1'
            if rule == 'C31-D2':
                guards = [g for g in guards if 'untrack' in g.name] or guards
            oblig.effect_requires(ctx, rule, fn, desc, lambda b2, blk, _bi=bi: b2 == _bi, guards,
                                  site_of=lambda b2, _f=fn: loc(_f.B[b2]['t'].get('span') or (_f.B[b2]['s'][0][1].get('span') if _f.B[b2]['s'] else None) or _f.d['span']))
    ctx.floor('pointer dereference / reclaim sites rooted at pointer parameters', nsites, 100, rule='C31-D1')
    # ---- D2b reclaim calls anywhere reachable from the C entry points: only under untrack = Ok or inside a registry cleanup closure
    reach_ext, _par = prog.reach_from(ext)
    for name in sorted(prog.fns()):
        if name not in reach_ext:
            continue
        fn = prog.fn(name)
        for bi, t in fn.calls():
            if not RECLAIM.search(t['fd']):
                continue
            if any(k for a in t['args'][:1] if 'l' in a for k in arg_roots(fn, a)) and prog.bodies[name]['kind'] != 'closure':
                continue   # handled above
            in_cleanup = prog.bodies[name]['kind'] == 'closure' and any(re.search(r'track_box|track_arc|PointerRegistry::track|to_c_string|to_c_bytes|track_', p) for p in [prog.bodies[name].get('parent', '')])
            ctx.ob('C31-D2', name, t['fd'].split('::')[-2].replace('<T>', '') + '::' + t['fd'].split('::')[-1], 'inside a registry cleanup closure (invoked once by the registry on free)', in_cleanup,
                   detail='' if in_cleanup else 'reclaiming call at %s is neither guarded by untrack_pointer nor inside a registry cleanup closure' % loc(t['span']), site=loc(t['span']))
    # ---- D4 error indicator returns are preceded by set_last
    nret = 0
    for name in ext:
        fn = prog.fn(name)
        rty = fn.d['ret']
        if rty == '()':
            continue
        # error-indicator constant per return type
        def is_err_const(v):
            if v is None:
                return False
            if v[0] == 'const':
                if rty.startswith('*'):
                    return v[1] == 0
                if rty in ('i32', 'i64', 'isize', 'std::ffi::c_int'):
                    return v[1] == -1 or v[1] in (4294967295, 18446744073709551615)
                return False
            if v[0] == 'call':
                fd = fn.B[v[1]]['t']['fd']
                return fd in ('std::ptr::null_mut', 'std::ptr::null')
            return False
        eng = Engine(fn, track_calls=lambda bi, t: False, maxstates=200000)
        SET = re.compile(r'set_last$')

        def mon(bi, b, env, facts, ms):
            t = b['t']
            labels = []
            if t['k'] == 'ret' and ms == 0 and is_err_const(env.get(0)):
                labels = [('bad', bi)]
            if t['k'] == 'call' and SET.search(t['fd']):
                ms = 1
            return ms, labels
        mon.init = 0
        try:
            hits = eng.explore(mon, forget=True)
        except RuntimeError:
            ctx.ob('C31-D4', name, 'error return', 'set_last precedes', False, detail='state budget exceeded', info=True)
            continue
        ctx.states += eng.states
        nret += 1
        bad = hits[0] if hits else None
        ctx.ob('C31-D4', name, 'return of the error indicator (%s)' % ('null' if rty.startswith('*') else '-1'), 'CimplError::set_last on the path', bad is None,
               detail='' if bad is None else 'a path returns the error indicator without setting the last error; lines %s' % __import__('lib').describe_path(fn, eng.path_of(bad[4])),
               site=loc(fn.d['span']))
    ctx.floor('extern fns with an error-indicator return type', nret, 60, rule='C31-D4')
    # ---- D3 tracked returns
    for name in ext:
        fn = prog.fn(name)
        if not fn.d['ret'].startswith('*'):
            continue
        bad = []
        for o in fn.origins({'l': 0, 'p': []}):
            if o[0] == 'call':
                fd = fn.B[o[1]]['t']['fd']
                if re.search(r'cimpl::utils::(track_box|track_arc|track_arc_mutex|to_c_string|to_c_bytes)$|^std::ptr::null(_mut)?$|c_api::(to_c_string|c2pa_.*|.*_to_c_.*)$|option_to_c_string|cimpl::', fd) or prog.bodies.get(fd, {}).get('ret', '').startswith('*'):
                    continue
                bad.append(fd)
            elif o[0] == 'const':
                if o[1] != 0:
                    bad.append('const %s' % (o[1],))
            elif o[0] in ('arg',):
                bad.append('returns its own argument')
            elif o[0] in ('k', 'local', 'other', 'agg', 'bin', 'field'):
                bad.append(str(o[0]))
        ctx.ob('C31-D3', name, 'returned raw pointer', 'null or from track_*/to_c_string/to_c_bytes', not bad, detail=str(bad[:4]), site=loc(fn.d['span']))
    # ---- D5 registry
    for m, need in (('cimpl::utils::PointerRegistry::free', r'remove'), ('cimpl::utils::PointerRegistry::untrack', r'remove'), ('cimpl::utils::PointerRegistry::validate', r'get|contains')):
        if not ctx.require(prog.has(m), m):
            continue
        fn = prog.fn(m)
        ctx.analysed(m, len(list(fn.calls())))
        calls = [t['fd'] for bi, t in fn.calls()]
        ctx.ob('C31-D5', m, 'registry lookup', 'HashMap::%s under the lock' % need, any(re.search(r'HashMap.*::(%s)' % need, c) for c in calls) and any('Mutex' in c and 'lock' in c for c in calls),
               detail=str([c.split('::')[-1] for c in calls][:12]))
    # validate / untrack return Ok only for a tracked pointer whose recorded type equals the expected type
    for m in ('cimpl::utils::PointerRegistry::validate', 'cimpl::utils::PointerRegistry::untrack'):
        if prog.has(m):
            fn = prog.fn(m)
            g_type = CallGuard(r'PartialEq::eq$', 'true', argpred=lambda f, bi, t: 'TypeId' in ' '.join(t.get('at', [])), name='recorded TypeId == expected TypeId')
            g_found = CallGuard(r'HashMap.*::get$', 'some', name='pointer is tracked (get = Some)')
            oblig.returns_only_if(ctx, 'C31-D5', fn, 'Ok', [g_type])
            oblig.returns_only_if(ctx, 'C31-D5', fn, 'Ok', [g_found])
            wt = [1 for b in fn.B for bi2 in [0] for dst, rv in b['s'] if False]
            calls = [t['fd'] for bi, t in fn.calls()]
            ctx.ob('C31-D5', m, 'wrong type', 'CimplError::wrong_pointer_type constructed', any(c.endswith('wrong_pointer_type') for c in calls))
            ctx.ob('C31-D5', m, 'unknown pointer', 'CimplError::untracked_pointer constructed', any(c.endswith('untracked_pointer') for c in calls))
    fr = 'cimpl::utils::PointerRegistry::free'
    if prog.has(fr):
        fn = prog.fn(fr)
        g = CallGuard(r'HashMap.*::remove$', 'some', name='entry removed from the registry (Some)')
        cleanup = [bi for bi, t in fn.calls() if (t['fd'] == '<indirect>') or re.search(r'FnOnce::call_once$|FnMut::call_mut$|Fn::call$', t['fd'])]
        ctx.ob('C31-D5', fr, 'cleanup invocation', 'exactly one call site', len(cleanup) == 1, detail='%d sites' % len(cleanup))
        if cleanup:
            oblig.effect_requires(ctx, 'C31-D5', fn, 'cleanup()', lambda bi, b, _s=set(cleanup): bi in _s, [g])
            # not in a loop
            cb = cleanup[0]
            nxt = fn.B[cb]['t']['t']
            ctx.ob('C31-D5', fr, 'cleanup()', 'not inside a loop (once per free)', not (nxt is not None and cb in fn.reachable(nxt)))
        oblig.returns_only_if(ctx, 'C31-D5', fn, 'Ok', [g, oblig.TermGuard(T, r'^eq\(ptr,0\)$', 'true', name='ptr == NULL (free(NULL) is a no-op)')])
