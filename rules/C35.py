"""C35 Results do not depend on stream chunking, and I/O errors are never hidden (two inventories)."""
import re
import collections
from lib import loc, is_result_ty
from terms import Terms
import discipline

EXPLANATION = ("Type-resolved inventories over MIR: (D1) every call resolved to the short-read-prone primitives std::io::Read::read / Write::write (not read_exact / "
               "write_all) must be the body of a forwarding Read/Write impl, lie inside a loop whose exit depends on the returned count, or have a receiver that cannot "
               "short-read for every instantiation reaching it (Cursor<_>/&[u8], resolved through the generic callers); (D2) in the I/O layers (asset handlers, jumbf_io, "
               "jumbf/boxes, utils/io_utils, store) a Result<_, io::Error | crate::Error> consumed by ok()/let _/unwrap_or*/is_ok must be in a table with a reason, the "
               "accepted idiom being `expr.ok()?` inside an Option-returning lookup function; (D3) when an io::Result is matched, the Err arm returns Err or tests io::Error::kind() first (lookup/probe functions returning Option/bool excepted). Equality of results under arbitrary chunking is not decided.")
RULE = "obligation = one raw read/write call site / one discarded I/O Result site"
NOSHORT = re.compile(r'^std::io::Cursor<|^&\'?\{?\w*\}? ?\[u8\]$|^&\[u8\]$')
IO_SCOPE = re.compile(r'^sdk/src/(asset_handlers/|jumbf_io\.rs|jumbf/boxes\.rs|jumbf/boxio\.rs|utils/io_utils\.rs|store\.rs)')
# discarded I/O results accepted with a reason: (function base name, consumer) -> reason
TABLED = {
    ('jumbf_io::container_from_stream', 'ok()'): 'format sniffing returns Option: an unreadable header degrades to "trust the hint", and the failing stream fails again at the first real read',
    ('jumbf_io::container_from_stream', 'unwrap_or()'): 'ID3-prefixed FLAC probe: an unreadable marker means "not FLAC" (mp3); the stream is rewound and read again by the handler',
    ('jumbf_io::save_jumbf_to_file', 'is_ok()'): 'in-place patch attempt: on failure the full save path is taken',
    ('asset_handlers::bmff_io::meta_box_lacks_fullbox_header', 'is_ok()'): 'peek at the next 8 bytes: a short box means "no FullBox header"; the position is restored with a checked seek',
    ('<asset_handlers::riff_io::RiffIO as asset_io::CAIWriter>::write_cai', 'is_err()'): 'end-of-chunks detection while copying RIFF chunks (EOF ends the loop)',
}


def run(ctx):
    prog = ctx.prog(('c2pa',))
    T = Terms(prog)
    # ---- D1
    n = 0
    for name in prog.fns():
        fn = prog.fn(name)
        for bi, t in fn.calls():
            if t['fd'] not in ('std::io::Read::read', 'std::io::Write::write'):
                continue
            n += 1
            ctx.analysed(name, 1)
            what = 'raw %s on %s' % (t['fd'].split('::')[-1], t['f'].split(' as ')[0].lstrip('<')[:40])
            tri = prog.bodies[name].get('trait_item', '')
            if tri in ('std::io::Read::read', 'std::io::Write::write'):
                ctx.ob('C35-D1', name, what, 'forwarding Read/Write impl (returns the inner count)', True, site=loc(t['span']), nontrivial=False)
                continue
            nxt = t['t']
            inloop = nxt is not None and bi in fn.reachable(nxt)
            if inloop:
                # a retry loop: the returned count must advance the position in the SAME buffer (fill loop: buf[n..] with n += count) or bound what is
                # consumed afterwards (buf[..count]).  A loop that merely tests the count against 0 and then uses the whole buffer is a short-read bug.
                accs = set()
                for b in fn.B:
                    for dst, rv in b['s']:
                        if rv['k'] == 'bin' and rv['op'] in ('Add', 'AddWithOverflow', 'AddUnchecked'):
                            for o in (rv['a'], rv['b']):
                                if 'l' in o and any(x == ('call', bi) or (x[0] == 'field' and x[1] == ('call', bi)) for x in fn.origins(o)):
                                    other = rv['b'] if o is rv['a'] else rv['a']
                                    if 'l' in other:
                                        accs.add(fn.name_of(other['l']))
                buf = T.op_term(fn, t['args'][1]) if len(t['args']) > 1 else ''
                fill = any(a and re.search(r'Range(From)?\(%s[,)]' % re.escape(a), buf) for a in accs)
                cnt_names = set()
                d0 = t['dest']
                bound = False
                for b2, t2 in fn.calls():
                    tt = T.call_term(fn, b2)
                    if re.search(r'Index(Mut)?::index(_mut)?$', t2['fd']) and re.search(r'RangeTo\(|Range\(0,', tt) and any(x == ('call', bi) or (x[0] == 'field' and x[1] == ('call', bi)) for a2 in t2['args'][1:] for x in fn.origins(a2)):
                        bound = True
                ctx.ob('C35-D1', name, what, 'inside a retry loop whose position in the buffer advances by the returned count (or the count bounds what is consumed)', fill or bound,
                       detail='buffer %s; accumulators %s' % (buf[:80], sorted(x for x in accs if x)), site=loc(t['span']))
                continue
            recv = t['f'].split(' as ')[0].lstrip('<')
            if NOSHORT.search(recv):
                ctx.ob('C35-D1', name, what, 'receiver cannot short-read', True, site=loc(t['span']))
                continue
            # generic receiver: resolve instantiations through callers
            insts = instantiations(prog, name)
            ok = bool(insts) and all(NOSHORT.search(x) for x in insts)
            ctx.ob('C35-D1', name, what, 'every instantiation reaching it is Cursor<_>/&[u8], or it is a forwarding impl / count-driven loop', ok,
                   detail='instantiations: %s' % sorted(insts)[:4] if insts else 'a single read()/write() whose count may be short, outside a loop, on an arbitrary stream', site=loc(t['span']))
    ctx.floor('raw Read::read / Write::write call sites', n, 8, rule='C35-D1')
    # ---- D2 discarded I/O errors
    nd = 0
    kinds = collections.Counter()
    for name in prog.fns():
        fn = prog.fn(name)
        if not IO_SCOPE.search(fn.d['span']['file']):
            continue
        for bi, t in fn.calls():
            d = t['dest']
            if d['p']:
                continue
            ty = fn.local_ty(d['l'])
            if not is_result_ty(ty):
                continue
            io_err = 'std::io::Error' in ty
            handler_call = bool(re.search(r'asset_io::(CAIReader|CAIWriter|AssetPatch|AssetIO|RemoteRefEmbed|AssetBoxHash)::', t['fd']))
            if not io_err and not handler_call:
                continue
            cons = discipline.consumers(fn, bi)
            for kind, detail, cb in cons:
                if kind not in ('discard', 'dropped'):
                    continue
                nd += 1
                kinds[detail] += 1
                base = re.sub(r'(_async)?(::\{closure#\d+\})*$', '', name)
                ret = fn.d['ret']
                # accepted idiom: `.ok()?` in an Option-returning function (lookup semantics)
                if detail == 'ok()' and ret.startswith('std::option::Option<') and (base, 'ok()') not in TABLED:
                    ctx.ob('C35-D2', base, '%s -> %s' % (t['fd'].split('::')[-1], detail), 'Option-returning lookup: `.ok()?` is its propagation', True, site=loc(t['span']), nontrivial=False)
                    continue
                why = TABLED.get((base, detail))
                if why is None and detail in ('is_ok()', 'is_err()') and error_branch_returns(fn, cb, detail):
                    ctx.ob('C35-D2', base, '%s -> %s' % (t['fd'].split('::')[-1], detail), 'tested: the error outcome returns None/Err at once', True, site=loc(t['span']), nontrivial=False)
                    continue
                if why is None and kind == 'dropped' and re.search(r'rewind$|seek$|flush$|remove_file$', t['fd']):
                    why = 'best-effort cleanup/rewind after the answer is known (`let _ =`)'
                ctx.ob('C35-D2', base, '%s -> %s' % (t['fd'].split('::')[-1], detail), 'tabled with a reason', why is not None,
                       detail=('tabled: ' + why) if why else 'I/O error of %s is discarded by %s at %s' % (t['fd'].split('::')[-1], detail, loc(t['span'])), site=loc(t['span']))
    ctx.floor('discarded I/O results in the I/O layers', nd, 20, rule='C35-D2')
    # ---- D3 error arms of matched I/O results: the Err arm returns Err, or looks at io::Error::kind() before doing anything else
    ni = 0
    for name in prog.fns():
        fn = prog.fn(name)
        if not IO_SCOPE.search(fn.d['span']['file']):
            continue
        kc = set(b3 for b3, t3 in fn.calls() if t3['fd'].endswith('Error::kind'))
        for bi, t in fn.calls():
            d = t['dest']
            if d['p']:
                continue
            ty = fn.local_ty(d['l'])
            if not is_result_ty(ty) or 'std::io::Error' not in ty:
                continue
            for kind, detail, cb in discipline.consumers(fn, bi):
                if kind != 'inspect':
                    continue
                sw = None
                for b2, blk in enumerate(fn.B):
                    tt = blk['t']
                    if tt['k'] == 'switch' and any(o == ('discr', ('call', bi)) for o in fn.origins(tt['d'])):
                        sw = tt
                if sw is None:
                    continue
                ni += 1
                base = re.sub(r'(_async)?(::\{closure#\d+\})*$', '', name)
                ret = prog.fn(base).d['ret'] if prog.has(base) else fn.d['ret']
                what = '%s matched on' % t['fd'].split('::')[-1]
                if ret.startswith('std::option::Option<') or ret == 'bool' or ret.startswith('std::result::Result<bool,'):
                    ctx.ob('C35-D3', base, what, 'lookup/probe function (returns Option / bool / Result<bool>): an unreadable stream means "not found"', True, site=loc(t['span']), nontrivial=False)
                    continue
                errt = [x for v, x in sw['ts'] if v == 1] or [sw['o']]
                ok = err_arm_ok(fn, errt[0], kc)
                ctx.ob('C35-D3', base, what, 'the Err arm returns Err, or tests io::Error::kind() first (only a recognised kind such as UnexpectedEof may become a normal result)', ok,
                       detail='' if ok else 'an I/O error of %s at %s is turned into a normal result without looking at its kind' % (t['fd'].split('::')[-1], loc(t['span'])), site=loc(t['span']))
    ctx.floor('matched I/O results in the I/O layers', ni, 6, rule='C35-D3')
    ctx.note('discard kinds: %s' % dict(kinds))


def err_arm_ok(fn, start, kindcalls):
    from lib import FROM_RESIDUAL
    seen = set()
    work = [(start, None)]
    while work:
        b, e = work.pop()
        if (b, e) in seen:
            continue
        seen.add((b, e))
        if b in kindcalls:
            continue
        blk = fn.B[b]
        for dst, rv in blk['s']:
            if dst['l'] == 0 and not dst['p']:
                e = 'E' if (rv['k'] == 'agg' and rv.get('variant') == 'Err') else 'N'
        tt = blk['t']
        if tt['k'] == 'call' and tt['dest']['l'] == 0 and not tt['dest']['p']:
            e = 'E' if tt['fd'] == FROM_RESIDUAL else 'N'
        if tt['k'] == 'ret':
            if e != 'E':
                return False
            continue
        if len(seen) > 3000:
            return False
        for s_ in fn.succs(b):
            work.append((s_, e))
    return True


def error_branch_returns(fn, cb, detail):
    """`if x.is_err() {..}` / `if !x.is_ok() {..}`: every path from the error outcome returns None / Err / false without going on"""
    t = fn.B[cb]['t']
    nxt = t['t']
    if nxt is None:
        return False
    sw = fn.B[nxt]['t']
    # the bool result is switched on in the next block(s) (possibly through a Not)
    hops = 0
    while sw['k'] == 'goto' and hops < 3:
        nxt = sw['t']; sw = fn.B[nxt]['t']; hops += 1
    if sw['k'] != 'switch':
        return False
    neg = any(rv['k'] == 'un' and rv['op'] == 'Not' for dst, rv in fn.B[nxt]['s'])
    err_when_true = (detail == 'is_err()') != neg
    zero_t = [tb for v, tb in sw['ts'] if v == 0]
    true_t = sw['o'] if zero_t else None
    start = true_t if err_when_true else (zero_t[0] if zero_t else None)
    if start is None:
        return False
    seen = set()
    work = [(start, False)]
    while work:
        b, e = work.pop()
        if (b, e) in seen:
            continue
        seen.add((b, e))
        blk = fn.B[b]
        for dst, rv in blk['s']:
            if dst['l'] == 0 and not dst['p']:
                e = (rv['k'] == 'agg' and rv.get('variant') in ('Err', 'None')) or (rv['k'] == 'use' and rv['o'].get('c') in ('const false',))
        tt = blk['t']
        if tt['k'] == 'call' and tt['dest']['l'] == 0 and not tt['dest']['p']:
            e = tt['fd'].endswith('from_residual')
        if tt['k'] == 'ret':
            if not e:
                return False
            continue
        if len(seen) > 400:
            return False
        for s_ in fn.succs(b):
            work.append((s_, e))
    return True


def instantiations(prog, name, depth=0, seen=None):
    """concrete receiver types with which a generic fn (type parameter R) is ultimately instantiated"""
    seen = seen or set()
    if name in seen or depth > 6:
        return set()
    seen.add(name)
    out = set()
    for caller in prog.rcg.get(name, ()):
        cf = prog.fn(caller)
        for bi, t in cf.calls():
            if name in prog.callee_targets(t):
                m = re.search(r'::<(.*)>$', t['f'])
                g = m.group(1) if m else ''
                first = g.split(',')[0].strip() if g else ''
                if first in ('R', 'T', 'W', '') or re.fullmatch(r'[A-Z]\w?', first):
                    out |= instantiations(prog, caller, depth + 1, seen)
                else:
                    out.add(first)
    return out
