"""C01 Tamper evidence: asset content (verdict plumbing clauses D1-D5)."""
import re
from lib import CallGuard, LocalGuard, loc, classify_ret, Engine
from terms import Terms, fact_literals
import logs
import oblig
import verdict

EXPLANATION = ("All-paths structural rules over MIR: hard-binding success codes are logged only on the Ok edge of the matching "
               "verifier; every verifier Err edge reaches a Failure log or an Err return; leaf verifiers return Ok only after the hash "
               "comparison succeeded; Store::verify_store passes through Claim::verify_hash_binding; box-hash verification exhausts the "
               "handler's box list; every log site's kind agrees with log_kind(code). Decides the verdict plumbing, not which bytes the hashes cover.")
RULE = "obligation = (function, effect site, guard); enumerated from log sites / verifier call sites / Ok returns; non-trivial = branch between entry and effect"

VHB = 'claim::Claim::verify_hash_binding'
MATCH = {
    'assertion.dataHash.match': r'DataHash::verify_stream_hash_with_progress|DataHash::verify_(in_memory_)?hash',
    'assertion.bmffHash.match': r'BmffHash::verify_(stream_hash|hash|in_memory_hash|stream_segment|stream_segments)_with_progress',
    'assertion.boxesHash.match': r'BoxHash::verify_stream_hash_with_progress|BoxHash::verify_(in_memory_)?hash',
}
FAIL_CODES = {'assertion.dataHash.mismatch', 'assertion.bmffHash.mismatch', 'assertion.boxesHash.mismatch', 'assertion.bmffHash.malformed',
              'assertion.boxesHash.unknownBox', 'claim.hardBindings.missing', 'assertion.multipleHardBindings', 'manifest.update.invalid', 'general.error'}


def run(ctx):
    prog = ctx.prog(('c2pa',))
    consts = logs.const_strings(prog)
    T = Terms(prog)
    # ---- D1: success-soundness, stated globally over every non-test log site
    found = {c: 0 for c in MATCH}
    for name in prog.fns():
        fn = prog.fn(name)
        sites = [s for s in logs.log_sites(prog, fn, consts) if s['kind'] == 'success' and any(k == 'str' and v in MATCH for k, v in s['codes'])]
        for s in sites:
            code = [v for k, v in s['codes'] if k == 'str' and v in MATCH][0]
            found[code] += 1
            g = CallGuard(MATCH[code], 'ok', name='Ok edge of ' + MATCH[code].split('|')[0])
            ctx.analysed(name, len(list(fn.calls())))
            oblig.effect_requires(ctx, 'C01-D1', fn, 'success log ' + code, lambda bi, b, _s=s: bi == _s['bi'], [g])
    for code, n in found.items():
        ctx.floor('success log sites for ' + code, n, 1, rule='C01-D1')

    # ---- D2: failure obligation on every verifier call in verify_hash_binding
    if ctx.require(prog.has(VHB), VHB):
        fn = prog.fn(VHB)
        isfail, sites = oblig.log_block_pred(prog, fn, consts, kinds=('failure',), code_pred=lambda c: c in FAIL_CODES or c.endswith('.mismatch'))
        # variable-code failure site (bmff err_str) counts when all its possible codes are Failure-class
        varfail = set(bi for bi, s in sites.items() if s['kind'] == 'failure')
        disch = lambda bi, b: isfail(bi, b) or bi in varfail
        n = 0
        for code, pat in MATCH.items():
            g = CallGuard(pat, 'err', name='Err edge of ' + pat.split('|')[0])
            n += oblig.failing_edge_obligation(ctx, 'C01-D2', fn, g, disch, 'a Failure-kind hard-binding log')
        ctx.floor('verifier call sites in verify_hash_binding', n, 11, rule='C01-D2')
        # structural checks: no binding / multiple bindings / update manifest with hashes
        for code in ('claim.hardBindings.missing', 'assertion.multipleHardBindings', 'manifest.update.invalid'):
            have = [s for s in sites.values() if s['kind'] == 'failure' and ('str', code) in s['codes']]
            ctx.ob('C01-D2', VHB, 'Failure log ' + code, 'present', bool(have), detail='' if have else 'structural hard-binding check %s no longer logs a Failure' % code)
        # unknown binding label => Failure
        # every path through the per-assertion loop body that matches none of the three labels must log
        sw = [bi for bi, t in fn.calls() if t['fd'].endswith('str>::starts_with') or t['fd'] == 'core::str::<impl str>::starts_with']
        ctx.floor('label dispatch tests (starts_with) in verify_hash_binding', len(sw), 3, rule='C01-D2')

    # ---- D3: must-verify in verify_store + leaf verifiers
    for vs in ('store::Store::verify_store', 'store::Store::verify_store_async::{closure#0}'):
        if not ctx.require(prog.has(vs), vs):
            continue
        fn = prog.fn(vs)
        ctx.analysed(vs, len(list(fn.calls())))
        g = CallGuard(r'^claim::Claim::verify_hash_binding$', 'ok', name='Claim::verify_hash_binding = Ok')
        gnone = CallGuard(r'Store::get_claim$', 'none', name='binding claim label not in store (label comes from get_hash_binding_manifest; assumption A1)')
        gno = LocalGuard('asset_data', 'none', name='no asset data supplied')
        oblig.returns_only_if(ctx, 'C01-D3', fn, 'Ok', [g, gnone, gno])
        # the claim handed to verify_hash_binding is the one named by svi.binding_claim
        for bi, t in fn.calls():
            if t['fd'] == 'claim::Claim::verify_hash_binding':
                term = T.op_term(fn, t['args'][0])
                ctx.ob('C01-D3', vs, 'verify_hash_binding(claim)', 'claim = get_claim(svi.binding_claim)', 'binding_claim' in term and 'get_claim' in term,
                       detail='claim argument is ' + term, site=loc(t['span']))
    gsvi = 'store::Store::get_store_validation_info'
    if ctx.require(prog.has(gsvi), gsvi):
        fn = prog.fn(gsvi)
        ctx.analysed(gsvi, len(list(fn.calls())))
        # binding_claim is assigned from get_hash_binding_manifest's Some; None => HARD_BINDINGS_MISSING failure + Err
        ok = False
        for bi, t in fn.calls():
            if t['fd'].endswith('Option::<T>::ok_or_else') and 'get_hash_binding_manifest' in T.op_term(fn, t['args'][0]):
                clo = [fn.locals[a['l']].get('closure') for a in t['args'] if 'l' in a and fn.locals[a['l']].get('closure')]
                for c in clo:
                    cs = logs.log_sites(prog, prog.fn(c), consts)
                    if any(x['kind'] == 'failure' and ('str', 'claim.hardBindings.missing') in x['codes'] for x in cs):
                        ok = True
        ctx.ob('C01-D3', gsvi, 'binding manifest lookup = None', 'HARD_BINDINGS_MISSING Failure log + Err', ok,
               detail='' if ok else 'get_hash_binding_manifest(..).ok_or_else(log HARD_BINDINGS_MISSING) not found')
    leaf = [
        ('assertions::data_hash::DataHash::verify_stream_hash_with_progress', r'hash_utils::vec_compare$|hash_utils::verify_by_alg$'),
        ('assertions::box_hash::BoxHash::verify_stream_hash_with_progress', r'hash_utils::vec_compare$'),
    ]
    for name, pat in leaf:
        if not ctx.require(prog.has(name), name):
            continue
        fn = prog.fn(name)
        ctx.analysed(name, len(list(fn.calls())))
        gt = CallGuard(pat, 'true', name='hash comparison = true')
        if 'box_hash' in name:
            # boxes may all be excluded/skip: Ok needs compare true OR no hashed box; require: compare false never reaches Ok
            pass
        else:
            oblig.returns_only_if(ctx, 'C01-D3', fn, 'Ok', [gt])
        gf = CallGuard(pat, 'false', name='hash comparison = false')
        oblig.failing_edge_obligation(ctx, 'C01-D3', fn, gf, lambda bi, b: False, 'an Err return')
    # BMFF verifiers: every comparison's false edge reaches only Err
    nb = 0
    for name in prog.fns():
        if not name.startswith('assertions::bmff_hash::') or '{closure' in name:
            continue
        fn = prog.fn(name)
        gf = CallGuard(r'hash_utils::vec_compare$|hash_utils::verify_by_alg$|check_merkle_tree$|MerkleMap::hash_check$', 'false', name='comparison = false')
        if not any(gf.matches_call(fn, bi, t) for bi, t in fn.calls()):
            continue
        ctx.analysed(name, len(list(fn.calls())))
        if fn.d['ret'] == 'bool':
            continue
        nb += oblig.failing_edge_obligation(ctx, 'C01-D3', fn, gf, lambda bi, b: False, 'an Err return')
    ctx.floor('BMFF comparison sites with Err-only false edge', nb, 7, rule='C01-D3')

    # ---- D5: lock-step exhaustion in BoxHash::verify_stream_hash_with_progress
    name = 'assertions::box_hash::BoxHash::verify_stream_hash_with_progress'
    if prog.has(name):
        fn = prog.fn(name)
        def track_atom(a):
            return True
        eng = Engine(fn, maxstates=400000)
        def mon(bi, b, env, facts, ms):
            if b['t']['k'] == 'ret':
                return ms, [env.get(0)]
            return ms, []
        hits = eng.explore(mon)
        ctx.states += eng.states
        bad = None
        nok = 0
        for v, bi, facts, env, key in hits:
            if classify_ret(fn, v) != 'Ok':
                continue
            nok += 1
            L = fact_literals(T, fn, facts)
            # after the loop: a comparison of the cursor with the box-map length, or get(cursor) = None
            good = any(re.search(r'(eq|ne|lt|le|gt|ge)\(.*(len\(|Vec::len).*\)', l) and 'get_box_map' in l for l in L) or \
                any(l.startswith('!ok(') and 'get_box_map' in l and ('::get(' in l or 'get(' in l) for l in L)
            if not good:
                bad = eng.path_of(key)
                break
        ctx.ob('C01-D5', name, 'return Ok', "handler box list exhausted (cursor compared with box-map length)", bad is None and nok > 0,
               detail='' if bad is None else 'Ok is returned when the signed box list is exhausted without checking that the handler box map is exhausted too (appended boxes are never hashed)',
               site=loc(fn.d['span']), witness=None if bad is None else {'blocks': bad[:60]})

    # ---- D4: code/kind agreement (shared link 3), all log sites
    n = verdict.code_kind_agreement(ctx, prog, 'C01-D4')
    ctx.floor('log sites (MIR, both flavours)', n or 0, 230, rule='C01-D4')

    # ---- D6: extent of the JPEG scan box: the byte after 0xFF that keeps the scanner inside the entropy-coded segment.  ITU T.81 B.1.1.5:
    # inside a scan 0xFF is followed by 0x00 (stuffing) or RSTm (0xD0..0xD7); a predicate that rejects one of them ends the SOS box early and
    # the rest of the image data lies in no hashed box.  The truth condition (DNF) of in_entropy is evaluated over all 256 byte values.
    import finite
    ie = 'asset_handlers::jpeg_io::in_entropy'
    if ctx.require(prog.has(ie), ie):
        ctx.analysed(ie, 0)
        fn = prog.fn(ie)
        s_, dnf = T.truth_dnf(ie)
        var = fn.name_of(1)
        acc, unk = finite.accepted_set(dnf or [], var, range(256)) if dnf else (set(), ['opaque'])
        need = set([0x00] + list(range(0xD0, 0xD8)))
        ctx.ob('C01-D6', ie, 'byte after 0xFF inside the scan', 'accepts 0x00 and every RSTm 0xD0..0xD7 (enumerated over 256 values)', not unk and need <= acc,
               detail='accepted %s; missing %s; uninterpreted %s' % (sorted(hex(x) for x in acc)[:12], sorted(hex(x) for x in need - acc), unk[:3]), site=loc(fn.d['span']))
        ges = 'asset_handlers::jpeg_io::get_entropy_size'
        if ctx.require(prog.has(ges), ges):
            gf = prog.fn(ges)
            ctx.ob('C01-D6', ges, 'scan extent', 'decided by in_entropy', any(t['fd'].endswith('jpeg_io::in_entropy') for bi, t in gf.calls()))

    # ---- D7: the signed exclusion range of a data hash may be replaced by the observed manifest-store range only while validating a claim that
    # has an update manifest appended (svi.update_manifest_label is Some); otherwise the file layout, not the signed assertion, would decide what is excluded
    for name in [n for n in prog.fns() if re.match(r'^claim::Claim::verify_hash_binding(_async::\{closure#0\})?$', n)]:
        fn = prog.fn(name)
        eff = set(bi for bi, t in fn.calls() if t['fd'].endswith('IndexMut::index_mut') and 'exclusions' in T.call_term(fn, bi) and 'DataHash' in T.call_term(fn, bi))
        if not ctx.ob('C01-D7', name, 'replacement of a signed exclusion range', 'site exists', bool(eff), nontrivial=False):
            continue
        g = oblig.TermGuard(T, r'(^|\.)update_manifest_label$', 'some', name='svi.update_manifest_label is Some')
        oblig.effect_requires(ctx, 'C01-D7', fn, 'exclusions[pos] = manifest store range', lambda bi, b, _e=eff: bi in _e, [g])

