"""C10 Untrusted input never crashes, hangs or exhausts memory (four structural clauses)."""
import re
from lib import loc
from terms import Terms
import recursion

EXPLANATION = ("Whole-program rules over the resolved call graph and MIR: (D1) every recursive SCC is classified - delegation through wrapper objects, or "
               "input-driven recursion that must be in a table with its bound, each recursive call passing depth+1 and dominated by the comparison with a finite "
               "constant (or by a visited-set test); (D2) every decompression / body read is bounded by type (BrotliDecompress writes into BoundedVecWriter, "
               "HTTP bodies and brob payloads are read through io::Take); (D3) explicit panic-family calls (unwrap/expect/panic!/todo!/unimplemented!/unreachable!/"
               "assert!) reachable from the read/ingest entry points are an exact table. Index/overflow panics, timing and total memory are NOT decided.")
RULE = "obligation = one recursive function / one decompression or body-read call site / one reachable panic call site"

ENTRIES = [r'^reader::Reader::(with_stream|with_file|with_manifest_data_and_stream|with_fragment|with_fragmented_files|from_fragment|from_json|post_validate)(_async)?$',
           r'^builder::Builder::(add_ingredient_from_stream|with_archive|add_ingredient_from_archive|add_ingredient_from_reader|add_ingredient)(_async)?$',
           r'^ingredient::Ingredient::(from_stream|with_stream|from_memory|from_manifest_and_asset)', r'^store::Store::(from_stream|from_jumbf|from_manifest_data_and_stream|load_from_memory)']
PANIC = re.compile(r'(Option|Result)::<.*>::(unwrap|expect)$|^core::panicking::|^std::rt::begin_panic|panic_fmt$|^std::process::(abort|exit)$|assert_failed')
# reachable explicit panics accepted, with reason (function -> reason)
PANIC_TABLE = {
    'assertions::labels::METADATA_LABEL_REGEX::{closure#0}': 'Regex::new on a constant pattern',
    'assertions::labels::parse_label::VERSION_RE::{closure#0}': 'Regex::new on a constant pattern',
    'identity::claim_aggregation::w3c_vc::did::VALID_DID::{closure#0}': 'Regex::new on a constant pattern',
    'identity::identity_assertion::signer_payload::ABSOLUTE_URL_PREFIX::{closure#0}': 'Regex::new on a constant pattern',
    'http::reqwest::async_impl::new::{closure#0}': 'HTTP client construction (not input dependent)',
    "identity::claim_aggregation::w3c_vc::did::Did::<'a>::method_name_separator_offset": 'value already validated by the VALID_DID regex in Did::new',
    'identity::claim_aggregation::w3c_vc::did_web::prepare_url': 'caller matches method_name() == "web" first (re-checked below)',
    'crypto::asn1::<impl std::convert::From<crypto::asn1::GeneralizedTime> for chrono::DateTime<chrono::Utc>>::from::{closure#0}': 'unreachable!: GeneralizedTime fields are range-checked when parsed',
}
UNBOUNDED_TABLE = {
    'builder::Builder::old_from_archive': 'legacy .c2pa zip archive loader reads ZipFile entries with read_to_end (candidate finding, not replayed: entry sizes are not limited)',
}


def run(ctx):
    prog = ctx.prog(('c2pa',))
    T = Terms(prog)
    n = recursion.check_sccs(ctx, 'C10-D1', prog, T)
    ctx.floor('input-driven recursive functions', n, 12, rule='C10-D1')
    # ---- D2
    nd = 0
    for name in prog.fns():
        fn = prog.fn(name)
        for bi, t in fn.calls():
            f = t['f']
            if t['fd'].endswith('brotli::BrotliDecompress') or re.search(r'^brotli::BrotliDecompress', f):
                nd += 1
                ok = 'BoundedVecWriter' in f
                ctx.ob('C10-D2', name, 'BrotliDecompress', 'output writer is BoundedVecWriter', ok, detail=f[:160], site=loc(t['span']))
                ctx.analysed(name, 1)
            elif re.search(r'Read>::read_to_(end|string)$', f) or t['fd'] in ('std::io::Read::read_to_end', 'std::io::Read::read_to_string'):
                recv = t['at'][0] if t.get('at') else ''
                risky = re.search(r'ZipFile|Decompressor|flate|Box<dyn|io::Take<', recv) is not None and 'CAIRead' not in recv
                if not risky:
                    continue
                nd += 1
                ctx.analysed(name, 1)
                ok = 'std::io::Take<' in recv
                base = re.sub(r'(::\{closure#\d+\})+$', '', name)
                if not ok and base in UNBOUNDED_TABLE:
                    ctx.ob('C10-D2', name, 'read_to_end on ' + recv[:50], 'tabled', True, detail='tabled: ' + UNBOUNDED_TABLE[base], site=loc(t['span']))
                    continue
                ctx.ob('C10-D2', name, 'read_to_end on ' + recv[:60], 'receiver is io::Take<_> (bounded)', ok,
                       detail='' if ok else 'unbounded read of a decompressor / response body at %s' % loc(t['span']), site=loc(t['span']))
    ctx.floor('decompression / body read sites', nd, 14, rule='C10-D2')
    # BoundedVecWriter::new is fed from a settings limit
    for name in prog.fns():
        fn = prog.fn(name)
        for bi, t in fn.calls():
            if t['fd'].endswith('BoundedVecWriter::new'):
                term = T.call_term(fn, bi)
                ctx.ob('C10-D2', name, 'BoundedVecWriter::new(limit)', 'limit derives from a setting / named constant', bool(re.search(r'settings|max_|MAX_|limit', term)), detail=term[:160], site=loc(t['span']))
    # ---- D3
    entries = [x for x in prog.fns() if any(re.search(p, x) for p in ENTRIES) and '{closure' not in x]
    ctx.floor('read/ingest entry points', len(entries), 12, rule='C10-D3')
    reach, parent = prog.reach_from(entries)
    np_ = 0
    for name in sorted(reach):
        fn = prog.fn(name)
        for bi, t in fn.calls():
            if not PANIC.search(t['fd']):
                continue
            mx = t['span'].get('mx') or []
            if any('JsonSchema' in m for m in mx):
                continue   # derive(JsonSchema) expansions (schema generation only)
            if any(m in ('json', 'serde_json::json') for m in mx[-1:]):
                continue   # serde_json::json! literal construction: to_value of in-memory literals cannot fail
            np_ += 1
            ctx.analysed(name, 1)
            why = PANIC_TABLE.get(name)
            kind = (mx[-1] + '!') if mx and mx[-1] in ('todo', 'unimplemented', 'unreachable', 'panic', 'assert', 'assert_eq') else t['fd'].split('::')[-1] + '()'
            ctx.ob('C10-D3', name, 'explicit panic ' + kind, 'reachable from a read/ingest entry point only if tabled', why is not None,
                   detail=('tabled: ' + why) if why else '%s at %s is reachable from %s via %s' % (kind, loc(t['span']), 'a read/ingest entry point', ' -> '.join(x.split('::')[-1] for x in prog.path_to(parent, name)[-6:])),
                   site=loc(t['span']))
    ctx.note('%d explicit panic sites reachable from read/ingest entry points' % np_)
    # did_web::prepare_url guard
    pu = 'identity::claim_aggregation::w3c_vc::did_web::prepare_url'
    if prog.has(pu):
        callers = [x for x in prog.rcg.get(pu, ())]
        ctx.ob('C10-D3', pu, 'callers', 'only did_web::resolve*', all('did_web::resolve' in x for x in callers), detail=str(callers))

    # ---- D5 TIFF: an allocation sized by an IFD entry's value_count is made only after that count was checked against the file size
    # (check_ifd_data_size on the same entry dominates safe_vec); the sibling sites all do, so a site that allocates first is the deviant
    npair = 0
    for name in prog.fns():
        if 'tiff_io' not in name:
            continue
        fn = prog.fn(name)
        chk = [(bi, T.call_term(fn, bi)) for bi, t in fn.calls() if t['fd'].endswith('tiff_io::check_ifd_data_size')]
        if not chk:
            continue
        ctx.analysed(name, len(chk))
        for bi, t in fn.calls():
            if not re.search(r'(^|::)safe_vec$', t['fd']):
                continue
            tt = T.call_term(fn, bi)
            vc = set(re.findall(r'([\w.\[\]()]*?value_count)', tt))
            if not vc:
                continue
            npair += 1
            doms = [c for c in chk if fn.dominates(c[0], bi) and any(v in c[1] for v in vc)]
            ctx.ob('C10-D5', name, 'safe_vec(entry.value_count ..)', 'preceded by check_ifd_data_size on the same entry (count bounded by the file size before allocating)', bool(doms),
                   site=loc(t['span']), detail=tt[:100])
    ctx.floor('TIFF allocations sized by an entry count next to a size check', npair, 7, rule='C10-D5')

