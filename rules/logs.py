"""Validation-log site extraction (the repo's `log_item!(..).validation_status(CODE).<kind>(..)` idiom)."""
import re
from lib import const_val, loc

LOG_METHODS = {
    'status_tracker::log_item::LogItem::success': 'success',
    'status_tracker::log_item::LogItem::informational': 'informational',
    'status_tracker::log_item::LogItem::failure': 'failure',
    'status_tracker::log_item::LogItem::failure_no_throw': 'failure',
    'status_tracker::log_item::LogItem::failure_as_err': 'failure',
}
VALSTAT = 'status_tracker::log_item::LogItem::validation_status'
CHAIN_PASS = {'status_tracker::log_item::LogItem::set_ingredient_uri', 'status_tracker::log_item::LogItem::with_ingredient_uri'}


def const_strings(prog):
    """const item path -> string value (from the const's own MIR body)"""
    out = {}
    for name, d in prog.bodies.items():
        if d['kind'] != 'const':
            continue
        b = d['blocks']
        if len(b) == 1 and len(b[0]['s']) == 1:
            rv = b[0]['s'][0][1]
            if rv['k'] == 'use' and 'c' in rv['o']:
                v = const_val(rv['o'])
                if v[0] == 'str':
                    out[name] = v[1]
                elif v[0] == 'item':
                    out[name] = ('alias', v[1])
    # resolve aliases
    for k, v in list(out.items()):
        n = 0
        while isinstance(v, tuple) and n < 5:
            v = out.get(v[1]); n += 1
        if isinstance(v, str):
            out[k] = v
        else:
            out.pop(k)
    return out


def code_of_operand(fn, op, consts, depth=0):
    """-> set of (kind, value): ('str', s) | ('var', description)"""
    if 'c' in op:
        v = const_val(op)
        if v[0] == 'item':
            s = consts.get(v[1])
            return {('str', s)} if s is not None else {('item', v[1])}
        if v[0] == 'str':
            return {('str', v[1])}
        return {('var', str(v))}
    out = set()
    for o in fn.origins(op):
        if o[0] == 'item':
            s = consts.get(o[1]); out.add(('str', s) if s is not None else ('item', o[1]))
        elif o[0] == 'str':
            out.add(('str', o[1]))
        elif o[0] == 'call':
            out.add(('var', 'call:' + fn.B[o[1]]['t']['fd']))
        elif o[0] == 'arg':
            out.add(('var', 'arg:' + fn.name_of(o[1])))
        else:
            out.add(('var', str(o[0])))
    return out


def log_sites(prog, fn, consts):
    """list of dicts: bi, method, kind, codes(set), span"""
    out = []
    for bi, t in fn.calls():
        m = LOG_METHODS.get(t['fd'])
        if not m:
            continue
        method = t['fd'].split('::')[-1]
        codes = set()
        # walk the builder chain backwards from arg0
        cur = t['args'][0]
        hops = 0
        found = False
        while hops < 8 and 'l' in cur:
            ds = [d for d in fn.defs.get(cur['l'], ()) if d[0] in ('call', 'stmt')]
            if len(ds) != 1:
                break
            d = ds[0]
            if d[0] == 'call':
                ct = d[2]
                if ct['fd'] == VALSTAT:
                    codes = code_of_operand(fn, ct['args'][1], consts)
                    found = True
                    break
                if ct['fd'] in CHAIN_PASS or ct['fd'].startswith('status_tracker::log_item::LogItem::'):
                    if ct['fd'].endswith('::new') or ct['fd'].endswith('::from_err'):
                        break
                    cur = ct['args'][0]; hops += 1; continue
                break
            else:
                rv = d[3]
                if rv['k'] == 'use' and 'l' in rv['o']:
                    cur = rv['o']; hops += 1; continue
                break
        out.append({'bi': bi, 'method': method, 'kind': m, 'codes': codes, 'has_status': found, 'span': t['span'], 'fn': fn.name})
    return out


def log_kind_table(prog, consts):
    """evaluate validation_codes::log_kind: code string -> 'Success'|'Informational'|'Failure' (default Failure)
    by reading the match arms' constants in its MIR (string equality chain)."""
    name = 'validation_results::validation_codes::log_kind'
    if name not in prog.bodies:
        return None
    fn = prog.fn(name)
    table = {}
    # each arm: `_x = <str as PartialEq>::eq(code, const ITEM)` -> switch -> ... -> _0 = LogKind::V
    # Simplest faithful reading: explore paths; on each path the first eq(...)=true literal decides.
    from lib import Engine, classify_ret
    eng = Engine(fn, maxstates=200000)

    def mon(bi, b, env, facts, ms):
        if b['t']['k'] == 'ret':
            return ms, [env.get(0)]
        return ms, []
    hits = eng.explore(mon)
    default = None
    for v, bi, facts, env, key in hits:
        cls = classify_ret(fn, v)
        trues = [a for a, val in facts.items() if val == 1 and a[0] == 'call']
        if not trues:
            default = cls
            continue
        for a in trues:
            t = fn.B[a[1]]['t']
            for arg in t['args']:
                for k, s in code_of_operand(fn, arg, consts):
                    if k == 'str':
                        table[s] = cls
    return table, default
