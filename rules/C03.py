"""C03 Signing round trip: every supplied definition field is wired into the claim, every reported field is rebuilt from the claim."""
import re
from lib import loc, rv_operands
from terms import Terms
import fields
import oblig

EXPLANATION = ("Wiring rules (def-use on MIR) for the two conversions the round trip rests on. Builder::to_claim: the title, format, instance id, claim generator info, ingredients "
               "(with the requested redactions), and every element of definition.assertions reach the corresponding Claim mutator -- set_title(definition.title), claim.format <- "
               "definition.format, add_claim_generator_info(<- definition.claim_generator_info), Ingredient::add_to_claim on every element of definition.ingredients with "
               "definition.redactions, and no iteration of the assertions loop returns to the loop head without an add_assertion call (label and data of the fallback arms come from "
               "the same element); requested redactions that no ingredient applied return Err. Manifest::from_store (sync and async): the Manifest literal takes title, format, "
               "claim_generator, instance_id, label from the Claim accessors (not from Default), and claim_generator_info, assertions, ingredients, redactions are written from "
               "Claim::claim_generator_info / assertions / ingredient URIs / redactions. A supplied field that is never read, or a reported field that is never written from the "
               "claim, cannot round-trip. Equality of the reported values for all definitions, sizes and algorithms is not decided.")
RULE = "obligation = (conversion function, field, source accessor / sink mutator reached)"
TC = 'builder::Builder::to_claim'
MD, AD = 'builder::ManifestDefinition', 'builder::AssertionDefinition'
NEEDED_IN = ['title', 'format', 'instance_id', 'claim_generator_info', 'ingredients', 'assertions', 'redactions', 'thumbnail', 'label', 'vendor', 'hash_alg', 'claim_version']
NOT_WIRED = {'metadata': 'ManifestDefinition.metadata is not read by to_claim on the pinned tree (not one of the fields the property names); reported as information'}


def compression_rule(ctx, prog, T):
    """start_save_stream: when the claim asks for a compressed manifest, every path out of that branch either added a box hash or cleared the flag"""
    name = 'store::Store::start_save_stream'
    if not ctx.require(prog.has(name), name):
        return
    fn = prog.fn(name)
    calls = list(fn.calls())
    ctx.analysed(name, len(calls))
    comp = [bi for bi, t in calls if t['fd'].endswith('Claim::compressed')]
    if not ctx.ob('C03-D5', name, 'pc.compressed() test', 'exists (one)', len(comp) == 1, detail=str(len(comp)), nontrivial=False):
        return
    cb = comp[0]
    sw = fn.B[cb]['t']['t']
    t = fn.B[sw]['t']
    if not ctx.ob('C03-D5', name, 'pc.compressed() test', 'is branched on', t['k'] == 'switch', nontrivial=False):
        return
    zero = [x for v, x in t['ts'] if v == 0]
    true_t, false_t = t['o'], zero[0]
    discharge = set(bi for bi, tt in calls if (tt['fd'].endswith('Claim::set_compressed_manifest') and T.call_term(fn, bi).endswith(',0)'))
                    or (tt['fd'].endswith('Claim::add_assertion') and 'BoxHash' in T.call_term(fn, bi)))
    ctx.ob('C03-D5', name, 'discharge sites', 'set_compressed_manifest(false) and add_assertion(BoxHash) exist', len(discharge) >= 3, detail=str(sorted(discharge)), nontrivial=False)
    # join = first block reachable from both edges that is reachable from the false edge
    from_false = fn.reachable(false_t)
    r = fn.reachable(true_t, avoid=discharge)
    leak = sorted(x for x in r if x in from_false and x != sw)
    # blocks shared with the false side are past the join: reaching any of them without a discharge is the violation (cleanup/unwind blocks excluded by requiring a path to a return of Ok)
    okr = set(bi for bi, b in enumerate(fn.B) for dst, rv in b['s'] if dst['l'] == 0 and not dst['p'] and rv['k'] == 'agg' and rv.get('variant') == 'Ok')
    bad = [x for x in leak if fn.reachable(x) & okr]
    ctx.ob('C03-D5', name, 'leaving the compressed-manifest branch', 'only after adding a box hash or clearing the compressed flag (else the placeholder size cannot match)', not bad,
           detail='blocks past the join reachable without discharge: %s' % bad[:4], site=loc(fn.B[cb]['t'].get('span')))


DIGEST_LEN = {'sha256': 32, 'sha384': 48, 'sha512': 64}


def placeholder_digest_rule(ctx, prog, T):
    """Placeholder (zero-filled) hashes stand in for the real digest during the first signing pass: in every `match alg {"sha256" => .., ..}`
    the zero array built on the arm of algorithm A must have the digest length of A (independent table 32/48/64), else the final size differs from
    the placeholder and signing fails for that algorithm."""
    n = 0
    for name in prog.fns():
        fn = prog.fn(name)
        eqs = [(bi, T.call_term(fn, bi)) for bi, t in fn.calls() if t['fd'].endswith('PartialEq::eq')]
        eqs = [(bi, re.search(r'"(sha(256|384|512))"\)$', tt).group(1)) for bi, tt in eqs if re.search(r'"(sha(256|384|512))"\)$', tt)]
        if len(eqs) < 2:
            continue
        eqblocks = set(b for b, _a in eqs)
        for bi, alg in eqs:
            sw = fn.B[fn.B[bi]['t']['t']]
            if sw['t']['k'] != 'switch':
                continue
            zero = [x for v, x in sw['t']['ts'] if v == 0]
            true_t = sw['t']['o'] if zero else None
            if true_t is None:
                continue
            # straight-line region of the arm: follow until a block with several successors
            cur, seen, lens = true_t, set(), []
            while cur is not None and cur not in seen and len(seen) < 12:
                seen.add(cur)
                for dst, rv in fn.B[cur]['s']:
                    if rv['k'] == 'other':
                        m = re.fullmatch(r'\[const 0_u8; (\d+)\]', rv.get('s', ''))
                        if m:
                            lens.append(int(m.group(1)))
                succ = fn.succs(cur)
                nxt = [x for x in succ]
                t = fn.B[cur]['t']
                if t['k'] == 'call':
                    cur = t['t']
                elif t['k'] == 'goto':
                    cur = t['t']
                else:
                    cur = None
                if lens:
                    break
            if lens:
                n += 1
                ctx.analysed(name, 1)
                ctx.ob('C03-D6', name, 'placeholder hash on the "%s" arm' % alg, '%d zero bytes (digest length of %s)' % (DIGEST_LEN[alg], alg), lens[0] == DIGEST_LEN[alg], detail='[0u8; %d]' % lens[0], site=loc(fn.B[bi]['t'].get('span')))
    ctx.floor('algorithm arms that build a zero placeholder hash', n, 9, rule='C03-D6')


def run(ctx):
    prog = ctx.prog(('c2pa',))
    T = Terms(prog)
    compression_rule(ctx, prog, T)
    placeholder_digest_rule(ctx, prog, T)
    if not ctx.require(prog.has(TC), TC):
        return
    fn = prog.fn(TC)
    calls = list(fn.calls())
    ctx.analysed(TC, len(calls))
    # ---- D1 field coverage on the input side
    reach, _p = prog.reach_from([TC])
    cov = {}
    for n in reach:
        if not prog.has(n) or fields.is_derived(n):
            continue
        r, w = fields.accesses(prog, prog.fn(n))
        for a, fl in r | w:
            if a in (MD, AD):
                cov.setdefault((a, fl), set()).add(n)
    madt, aadt = prog.adts.get(MD), prog.adts.get(AD)
    if ctx.require(madt is not None, MD + ' (adt)') and ctx.require(aadt is not None, AD + ' (adt)'):
        names = [f[0] for f in madt['variants'][0]['fields']]
        for fl in names:
            got = cov.get((MD, fl), set())
            if fl in NOT_WIRED:
                ctx.ob('C03-D1', TC, 'ManifestDefinition.' + fl, 'read while building the claim', bool(got), detail=NOT_WIRED[fl], info=True)
                continue
            ctx.ob('C03-D1', TC, 'ManifestDefinition.' + fl, 'read (outside derived impls) while building the claim', bool(got), detail='read in: ' + ', '.join(sorted(got))[:160])
        for fl in NEEDED_IN:
            ctx.require(fl in names, 'ManifestDefinition.' + fl)
        for fl in ('label', 'data', 'created'):
            got = cov.get((AD, fl), set())
            ctx.ob('C03-D1', TC, 'AssertionDefinition.' + fl, 'read while building the claim', bool(got), detail=', '.join(sorted(got))[:160])

    def term(bi):
        return T.call_term(fn, bi)

    def sites(pat):
        return [bi for bi, t in calls if re.search(pat, t['fd'])]
    # ---- D2 sinks
    st = sites(r'claim::Claim::set_title$')
    ctx.ob('C03-D2', TC, 'Claim::set_title', 'called with definition.title', any('definition.title' in term(b) for b in st), detail=str([term(b)[-80:] for b in st]))
    # claim.format / instance_id
    fmt_ok = inst_ok = False
    for b in fn.B:
        for dst, rv in b['s']:
            steps = list(fields.walk(prog, fn, dst))
            if steps and steps[-1] == ('claim::Claim', 'format'):
                if any('definition.format' in T.op_term(fn, o) for o in rv_operands(rv)):
                    fmt_ok = True
    for bi, t in calls:
        tt = term(bi)
        if re.search(r'clone_into\(self\.definition\.instance_id,', tt) or (t['fd'].endswith('Claim::set_instance_id') and 'definition.instance_id' in tt):
            inst_ok = True
        if t['fd'].endswith('Claim::set_format') and 'definition.format' in tt:
            fmt_ok = True
    ctx.ob('C03-D2', TC, 'claim.format', 'assigned from definition.format', fmt_ok)
    ctx.ob('C03-D2', TC, 'claim.instance_id', 'assigned from definition.instance_id', inst_ok)
    cg = sites(r'Claim::add_claim_generator_info$')
    ctx.ob('C03-D2', TC, 'Claim::add_claim_generator_info', 'fed from definition.claim_generator_info', any('definition.claim_generator_info' in term(b) for b in cg), detail=str(len(cg)))

    def loop_rule(coll, sink_pat, sink_name):
        nx = [bi for bi, t in calls if t['fd'].endswith('Iterator::next') and term(bi) == 'Iterator::next(self.definition.%s)' % coll]
        if not ctx.ob('C03-D2', TC, 'loop over definition.' + coll, 'exists (one)', len(nx) == 1, detail=str(len(nx)), nontrivial=False):
            return
        nb = nx[0]
        # Some edge of the match on next()
        sw = fn.B[fn.B[nb]['t']['t']]
        cur = fn.B[nb]['t']['t']
        hops = 0
        while sw['t']['k'] != 'switch' and hops < 4:
            cur = sw['t'].get('t'); sw = fn.B[cur]; hops += 1
        some_t = [x for v, x in sw['t'].get('ts', []) if v == 1]
        if not ctx.ob('C03-D2', TC, 'loop over definition.' + coll, 'Some edge resolves', bool(some_t), nontrivial=False):
            return
        sinks = set(bi for bi, t in calls if re.search(sink_pat, t['fd']))
        elem = 'Iterator::next(self.definition.%s).Some.0' % coll
        sinks_e = set(b for b in sinks if elem in term(b))
        r = fn.reachable(some_t[0], avoid=sinks_e)
        ctx.ob('C03-D2', TC, 'each element of definition.' + coll, 'reaches %s before the next iteration (or the function leaves with Err)' % sink_name, nb not in r and bool(sinks_e),
               detail='%d sink sites on the element' % len(sinks_e), site=loc(fn.B[nb]['t'].get('span')))
        return sinks_e
    ing = loop_rule('ingredients', r'Ingredient::add_to_claim$', 'Ingredient::add_to_claim')
    for b in ing or ():
        ctx.ob('C03-D2', TC, 'Ingredient::add_to_claim', 'receives definition.redactions', 'definition.redactions' in term(b), detail=term(b)[-120:])
    # assertions: sinks are add_assertion calls whose assertion argument derives from the element
    asr = [bi for bi, t in calls if re.search(r'(builder::Builder::to_claim::add_assertion|claim::Claim::add_assertion)$', t['fd'])]
    nx = [bi for bi, t in calls if t['fd'].endswith('Iterator::next') and term(bi) == 'Iterator::next(self.definition.assertions)']
    if ctx.ob('C03-D2', TC, 'loop over definition.assertions', 'exists (one)', len(nx) == 1, nontrivial=False):
        nb = nx[0]
        elem = 'Iterator::next(self.definition.assertions).Some.0'
        in_loop = [b for b in asr if nb in fn.reachable(b) and b in fn.reachable(fn.B[nb]['t']['t'])]
        # the join block `match {..}?` merges the arms' results: accept sinks in the loop whose term mentions the element or the parsed Actions
        r = fn.reachable(fn.B[nb]['t']['t'], avoid=set(in_loop))
        # blocks reached without a sink: the None exit of the loop is fine, the loop head is not
        ctx.ob('C03-D2', TC, 'each element of definition.assertions', 'reaches an add_assertion call before the next iteration (or Err)', nb not in r and len(in_loop) >= 8,
               detail='%d add_assertion sites in the loop' % len(in_loop), site=loc(fn.B[nb]['t'].get('span')))
        nf = 0
        for b in in_loop:
            tt = term(b)
            m = re.search(r'(User|UserCbor)::new\((.*)$', tt)
            if m:
                nf += 1
                ctx.ob('C03-D2', TC, m.group(1) + '::new (fallback arm)', 'label and data both come from the current element',
                       'AssertionDefinition::label(%s)' % elem in tt and re.search(r'Iterator::next\((self\.definition\.assertions|_\.assertions|_)\)\.Some\.0\.data\.(Json|Cbor)\.0', tt) is not None, detail=tt[-200:])
            elif elem not in tt and 'to_assertion' not in tt and 'actions' not in tt.lower():
                ctx.ob('C03-D2', TC, 'add_assertion in the loop', 'argument derives from the current element', False, detail=tt[-160:], site=loc(fn.B[b]['t'].get('span')))
        ctx.ob('C03-D2', TC, 'fallback arms (Json, Cbor)', 'both present', nf >= 2, detail=str(nf), nontrivial=False)
    # requested redactions must have been applied
    red = [bi for bi, t in calls if re.search(r'contains$', t['fd']) and 'Claim::redactions' in term(bi)]
    ok = False
    for bi in red:
        nxt = fn.B[bi]['t']['t']
        r = fn.reachable(nxt)
        ok = ok or any(rv['k'] == 'agg' and rv.get('variant') == 'AssertionRedactionNotFound' for x in r for d, rv in fn.B[x]['s'])
    ctx.ob('C03-D2', TC, 'requested redaction not applied by any ingredient', 'returns Err(AssertionRedactionNotFound)', ok, detail=str(len(red)))
    # ---- D3 report side
    for name in ('manifest::Manifest::from_store', 'manifest::Manifest::from_store_async::{closure#0}'):
        if not ctx.require(prog.has(name), name):
            continue
        mf = prog.fn(name)
        mcalls = list(mf.calls())
        ctx.analysed(name, len(mcalls))
        adt = prog.adts['manifest::Manifest']
        flds = [f[0] for f in adt['variants'][0]['fields']]
        lit = None
        for b in mf.B:
            for dst, rv in b['s']:
                if rv['k'] == 'agg' and rv.get('adt') == 'manifest::Manifest':
                    lit = rv
        if not ctx.ob('C03-D3', name, 'Manifest literal', 'exists', lit is not None, nontrivial=False):
            continue
        src = dict((f, T.op_term(mf, o)) for f, o in zip(flds, lit['ops']))
        for f, acc in (('title', 'Claim::title('), ('format', 'Claim::format('), ('claim_generator', 'Claim::claim_generator('), ('instance_id', 'Claim::instance_id('), ('label', 'Claim::label(')):
            ctx.ob('C03-D3', name, 'Manifest.' + f, 'initialised from ' + acc.rstrip('('), acc in src.get(f, ''), detail=src.get(f, '')[:120])
        reachm, _pp = prog.reach_from([name])
        wr = {}
        for n in reachm:
            if not prog.has(n) or fields.is_derived(n):
                continue
            r, w = fields.accesses(prog, prog.fn(n))
            for a, fl in w:
                if a == 'manifest::Manifest':
                    wr.setdefault(fl, set()).add(n)
        allterms = ' ; '.join(T.call_term(mf, bi) for bi, t in mcalls if re.search(r'Claim::(claim_generator_info|assertions|redactions|ingredient_assertions)$|Ingredient::from_ingredient_uri$|Manifest::add_ingredient$|ManifestAssertion::(new|from_assertion)$', t['fd']))
        for f, acc in (('claim_generator_info', 'Claim::claim_generator_info('), ('assertions', 'Claim::assertions('), ('redactions', 'Claim::redactions('), ('ingredients', 'Ingredient::from_ingredient_uri(')):
            ctx.ob('C03-D3', name, 'Manifest.' + f, 'written, from ' + acc.rstrip('('), bool(wr.get(f)) and acc in allterms, detail='written in: %s' % ', '.join(sorted(wr.get(f, [])))[:160])
        # every claim assertion is visited: loop over Claim::assertions() pushes to manifest.assertions (or is a tabled special label)
        pushes = [bi for bi, t in mcalls if re.search(r'Vec::<T, A>::push$|Vec::push$', t['fd']) and re.search(r'\.assertions\b|manifest\.assertions', T.call_term(mf, bi))]
        ctx.ob('C03-D3', name, 'manifest.assertions.push', 'present (generic assertions are reported)', len(pushes) >= 1, detail=str(len(pushes)))
        # sibling agreement: every reported assertion carries the claim assertion's instance (labels of repeated assertions stay distinct)
        npush = 0
        for bi, t in mcalls:
            if not re.search(r'Vec::<T, A>::push$|Vec::push$', t['fd']) or len(t['args']) < 2:
                continue
            ety = (t.get('at') or ['', ''])[1]
            if 'ManifestAssertion' not in ety:
                continue
            npush += 1
            vt = T.op_term(mf, t['args'][1])
            if 'ManifestAssertion::' not in vt:
                ots = [T.origin_term(mf, o)[0] for o in mf.origins(t['args'][1])]
                ok_i = bool(ots) and all('ManifestAssertion::set_instance(' in x and 'ClaimAssertion::instance(' in x for x in ots)
                vt = ' | '.join(ots)
            else:
                ok_i = 'ManifestAssertion::set_instance(' in vt and 'ClaimAssertion::instance(' in vt
            ctx.ob('C03-D3', name, 'assertion pushed to manifest.assertions', 'built with set_instance(claim_assertion.instance()) like its siblings', ok_i,
                   detail=re.sub(r'\(Claim[^)]*\)', '(..)', vt)[:160], site=loc(t.get('span')))
        ctx.floor('ManifestAssertion pushes in ' + name.split('::')[2], npush, 5, rule='C03-D3')
