"""C25 Settings updates fail atomically (commit-after-validate clause) and use the documented primitives."""
import re
from lib import CallGuard, loc, classify_ret, FROM_RESIDUAL
from terms import Terms
import oblig
import discipline

EXPLANATION = ("All-paths MIR rules over the Settings mutators: every write that commits new settings (assignment to *self in update_from_str / set_value; SETTINGS.set(..) in the "
               "legacy from_string / set_thread_local_value) is dominated by the Ok edge of SettingsValidate::validate on the candidate value (through with_string / with_value) "
               "and no Err return is reachable after the commit; the builders with_string / with_value return Ok only after validate = Ok; the overlay builder merges with "
               "merge_json and the path setter replaces with set_at_path (callee identity); Settings::validate invokes validate of every sub-struct that implements "
               "SettingsValidate. Merge semantics and JSON/TOML equivalence are not decided.")
RULE = "obligation = (mutator, commit site, validate guard) / (builder, Ok return, guard) / (sub-struct, validate call)"
S = 'settings::Settings::'


def run(ctx):
    prog = ctx.prog(('c2pa',))
    T = Terms(prog)
    g_val = CallGuard(r'SettingsValidate>::validate$|settings::SettingsValidate::validate$', 'ok', name='validate() = Ok')
    # legacy thread-local committers
    for name in (S + 'from_string', S + 'set_thread_local_value'):
        if not ctx.require(prog.has(name), name):
            continue
        fn = prog.fn(name)
        ctx.analysed(name, len(list(fn.calls())))
        sets = set(bi for bi, t in fn.calls() if 'LocalKey' in t['fd'] and t['fd'].endswith('::set'))
        ctx.ob('C25-D2', name, 'SETTINGS.set(..)', 'exactly one commit site', len(sets) == 1, detail=str(len(sets)))
        oblig.effect_requires(ctx, 'C25-D2', fn, 'SETTINGS.set(merged)', lambda bi, b, _s=sets: bi in _s, [g_val])
        # the validated value is built from the same merged document that is committed
        for bi in sets:
            term = T.op_term(fn, fn.B[bi]['t']['args'][1]) if len(fn.B[bi]['t']['args']) > 1 else ''
            vt = [T.call_term(fn, b2) for b2, t2 in fn.calls() if g_val.matches_call(fn, b2, t2)]
            ctx.ob('C25-D2', name, 'validated value', 'deserialised from the merged document that is committed', any('from_value' in x and 'merged' in x for x in vt) or any('from_value' in x for x in vt), detail=str(vt)[:160], nontrivial=False)
        # no Err after the commit
        for bi in sets:
            nxt = fn.B[bi]['t']['t']
            errs = [b for b in fn.reachable(nxt) if any(dst['l'] == 0 and rv['k'] == 'agg' and rv.get('variant') == 'Err' for dst, rv in fn.B[b]['s']) or (fn.B[b]['t']['k'] == 'call' and fn.B[b]['t']['fd'] == FROM_RESIDUAL and fn.B[b]['t']['dest']['l'] == 0)]
            ctx.ob('C25-D2', name, 'after SETTINGS.set', 'no Err return reachable (nothing fails after the commit)', not errs, detail=str(errs[:3]))
    # builders
    for name, prim in ((S + 'with_string', r'settings::merge_json$'), (S + 'with_value', r'settings::set_at_path$')):
        if not ctx.require(prog.has(name), name):
            continue
        fn = prog.fn(name)
        ctx.analysed(name, len(list(fn.calls())))
        oblig.returns_only_if(ctx, 'C25-D1', fn, 'Ok', [g_val])
        pc = [bi for bi, t in fn.calls() if re.search(prim, t['fd'])]
        ctx.ob('C25-D1', name, 'update primitive', prim.split('::')[-1].rstrip('$') + ' on the serialised current settings', len(pc) == 1, detail='%d call sites' % len(pc))
        for bi in pc:
            term = T.call_term(fn, bi)
            ctx.ob('C25-D1', name, 'update primitive operands', 'applied to serde_json::to_value(self)', 'to_value(self)' in term or 'merged' in term, detail=term[:160], nontrivial=False)
        other = [t['fd'] for bi, t in fn.calls() if re.search(r'settings::(merge_json|set_at_path)$', t['fd']) and not re.search(prim, t['fd'])]
        ctx.ob('C25-D1', name, 'other update primitives', 'none (overlay merges, path set replaces)', not other, detail=str(other))
        # returned settings are the validated ones
        oblig.must_pass_through(ctx, 'C25-D1', fn, lambda bi, b: any(dst['l'] == 0 and rv['k'] == 'agg' and rv.get('variant') == 'Ok' for dst, rv in b['s']), lambda bi, b: g_val.matches_call(fn, bi, b['t']) if b['t']['k'] == 'call' else False, 'return Ok(settings)', 'validate()')
    # &mut self mutators: assign *self only from the Ok edge of the builder
    for name, b in ((S + 'update_from_str', r'Settings::with_string$'), (S + 'set_value', r'Settings::with_value$')):
        if not ctx.require(prog.has(name), name):
            continue
        fn = prog.fn(name)
        ctx.analysed(name, len(list(fn.calls())))
        gb = CallGuard(b, 'ok', name=b.split('::')[-1].rstrip('$') + '(..) = Ok')
        writes = [bi for bi, blk in enumerate(fn.B) for dst, rv in blk['s'] if dst['l'] == 1 and dst['p'] and dst['p'][0] == '*']
        # *self = .. appears as an assignment through the &mut self argument (possibly after a drop)
        ctx.ob('C25-D1', name, '*self = ..', 'present', bool(writes), detail=str(len(writes)))
        oblig.effect_requires(ctx, 'C25-D1', fn, 'write to *self', lambda bi, blk, _w=set(writes): bi in _w, [gb])
        for w in writes:
            errs = [x for x in fn.reachable(w) if x != w and (any(dst['l'] == 0 and rv['k'] == 'agg' and rv.get('variant') == 'Err' for dst, rv in fn.B[x]['s']) or (fn.B[x]['t']['k'] == 'call' and fn.B[x]['t']['fd'] == FROM_RESIDUAL))]
            ctx.ob('C25-D1', name, 'after the write to *self', 'no Err return reachable', not errs, detail=str(errs[:3]))
    # Context mutators delegate to into_settings (validated) before assigning
    for name in ('context::Context::set_settings', 'context::Context::with_settings'):
        if prog.has(name):
            fn = prog.fn(name)
            g = CallGuard(r'IntoSettings::into_settings$', 'ok', name='settings.into_settings() = Ok')
            writes = [bi for bi, blk in enumerate(fn.B) for dst, rv in blk['s'] if dst['p'] and 'settings' in T.field_names(fn, dst['l'], dst['p'])]
            ctx.ob('C25-D1', name, 'self.settings = ..', 'present', bool(writes))
            oblig.effect_requires(ctx, 'C25-D1', fn, 'write to self.settings', lambda bi, blk, _w=set(writes): bi in _w, [g])
    # D3 validate covers every sub-struct implementing SettingsValidate
    sv = [im for im in prog.impls if im['trait'].endswith('SettingsValidate')]
    impl_types = set(im['self_ty'] for im in sv if im['methods'])   # impls that override validate (empty impls use the no-op default)
    sadt = prog.adts.get('settings::Settings')
    top = '<settings::Settings as settings::SettingsValidate>::validate'
    if ctx.require(sadt is not None, 'settings::Settings (adt)') and ctx.require(prog.has(top), top):
        fn = prog.fn(top)
        called = ' '.join(T.call_term(fn, bi) for bi, t in fn.calls())
        for fname, fty, _v in sadt['variants'][0]['fields']:
            base = re.sub(r'^std::option::Option<(.*)>$', r'\1', fty)
            if base in impl_types:
                ok = re.search(r'validate\(self\.%s(\.Some\.0)?\)' % re.escape(fname), called) is not None
                ctx.ob('C25-D3', top, 'field ' + fname + ': ' + base.split('::')[-1], 'validate() of the sub-struct is invoked', ok, detail=called[:200] if not ok else '')
        ctx.floor('SettingsValidate impls overriding validate', len(impl_types), 5, rule='C25-D3')
