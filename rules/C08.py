"""C08 Same-size replacement locality: bounded-write clauses (length equality before every in-place write; regenerated JUMBF length equality; region reporter uses the carrier)."""
import re
from lib import loc
from terms import Terms
import oblig
import C07

EXPLANATION = ("(D1) Store::start_save_stream and Store::save_to_bmff_fragmented regenerate the JUMBF after the placeholder was embedded: the Ok return is dominated by the false edge "
               "of `len(placeholder) != len(final)` and the true edge returns Err(JumbfCreationError). (D2) every in-place patcher reachable from an AssetPatch::patch_cai_store "
               "implementation (7 impls; helpers id3_helper::patch_cai_in_id3_asset, GifIO::replace_block_in_place): each Write::write_all/write on the asset is dominated by the "
               "equal edge of a comparison between the length of the buffer written and the length of the located manifest, the unequal edge cannot reach the write, and a seek "
               "to the located position precedes the write. (D3) every handler's get_object_locations_from_stream references the handler's carrier constants (same table as C07), "
               "and the JPEG region reporter gates on the same minimum segment length as the reader (C07-D5, shared). The arithmetic of the reported offsets and byte-level "
               "diffs are not decided.")
RULE = "obligation = (patcher, write site, length-equality guard) / (function, regenerated JUMBF, equality guard)"
AH = 'asset_handlers::'


def cmp_sites(fn, T):
    out = []
    for bi, b in enumerate(fn.B):
        for dst, rv in b['s']:
            if rv['k'] == 'bin' and rv['op'] in ('Eq', 'Ne'):
                t = b['t']
                if t['k'] == 'switch' and t['d']['l'] == dst['l']:
                    zero = [x for v, x in t['ts'] if v == 0]
                    if not zero:
                        continue
                    true_t, false_t = t['o'], zero[0]
                    eq_t, ne_t = (true_t, false_t) if rv['op'] == 'Eq' else (false_t, true_t)
                    out.append((bi, T.op_term(fn, rv['a']), T.op_term(fn, rv['b']), eq_t, ne_t))
    # PartialEq::eq calls on lengths are not used by the patchers today
    return out


def is_asset_write(t):
    """a write on the asset itself (a File or the caller's dyn CAIReadWrite), not on an in-memory buffer being assembled"""
    if not re.search(r'Write::write_all$|Write::write$', t['fd']):
        return False
    recv = (t.get('at') or [''])[0]
    return 'std::fs::File' in recv or 'CAIReadWrite' in recv


NO_LOCATIONS = {'bmff_io::BmffIO': 'BMFF reports no object locations (the BMFF hash assertion excludes boxes by path instead)',
                'c2pa_io::C2paIO': 'sidecar: the file is the store'}


def run(ctx):
    prog = ctx.prog(('c2pa',))
    T = Terms(prog)
    # ---- D1
    for name in ('store::Store::start_save_stream', 'store::Store::save_to_bmff_fragmented'):
        if not ctx.require(prog.has(name), name):
            continue
        fn = prog.fn(name)
        ctx.analysed(name, len(list(fn.calls())))
        tj = [bi for bi, t in fn.calls() if t['fd'].endswith('Store::to_jumbf_internal')]
        ctx.ob('C08-D1', name, 'to_jumbf_internal', 'called at least twice (placeholder, regenerated)', len(tj) >= 2, detail=str(len(tj)), nontrivial=False)
        cs = [c for c in cmp_sites(fn, T) if ('len(' in c[1] or 'jumbf_size' in c[1]) and ('len(' in c[2] or 'jumbf_size' in c[2])]
        ok = False
        for bi, a, b, eq_t, ne_t in cs:
            okr = C07.ok_returns(fn)
            last = max(tj) if tj else 0
            late_ok = [r for r in okr if r in fn.reachable(last)]
            dom_ok = all(fn.dominates(eq_t, r) for r in late_ok) if late_ok else False
            ne_err = not (fn.reachable(ne_t, avoid=(bi,)) & set(okr)) and any(rv['k'] == 'agg' and rv.get('variant') == 'JumbfCreationError' for x in fn.reachable(ne_t, avoid=(bi,)) for d, rv in fn.B[x]['s'])
            if dom_ok and ne_err:
                ok = True
                site = loc(fn.B[bi]['t'].get('span'))
        ctx.ob('C08-D1', name, 'Ok after regenerating the JUMBF', 'dominated by len(placeholder) == len(final); unequal returns Err(JumbfCreationError)', ok, detail='%d length comparisons' % len(cs), site=loc(fn.d['span']))
    # ---- D2
    impls = sorted(im['self_ty'] for im in prog.impls if im['trait'].endswith('asset_io::AssetPatch'))
    ctx.floor('AssetPatch implementations', len(impls), 7, rule='C08-D2')
    patchers = set()
    for ty in impls:
        n = '<%s as asset_io::AssetPatch>::patch_cai_store' % ty
        if not ctx.require(prog.has(n), n):
            continue
        reach, _p = prog.reach_from([n])
        mine = [x for x in reach if prog.has(x) and re.search(r'asset_handlers', x) and not re.search(r'CAIReader|get_manifest_pos|map_tiff|find_c2pa|detect_manifest|from_stream|Blocks|BlockMarker|::next|to_bytes|new_c2pa|from_decoded|encode', x)]
        found = False
        for x in mine:
            f2 = prog.fn(x)
            ws = [bi for bi, t in f2.calls() if is_asset_write(t)]
            if ws:
                patchers.add(x); found = True
        ctx.ob('C08-D2', n, 'in-place write', 'found in the impl or its patch helper', found, nontrivial=False)
    for x in sorted(patchers):
        fn = prog.fn(x)
        calls = list(fn.calls())
        ctx.analysed(x, len(calls))
        cs = cmp_sites(fn, T)
        for bi, t in calls:
            if not is_asset_write(t):
                continue
            buf = T.op_term(fn, t['args'][1]) if len(t['args']) > 1 else ''
            base = re.sub(r'^(as_bytes|as_slice|Deref::deref)\((.*)\)$', r'\2', buf)
            ok = False
            for cb, a, b, eq_t, ne_t in cs:
                if not (('len(' in a and base and base in a) != ('len(' in b and base and base in b)):
                    continue
                if fn.dominates(eq_t, bi) and bi not in fn.reachable(ne_t, avoid=(cb,)):
                    ok = True
            ctx.ob('C08-D2', x, 'write_all(%s)' % buf[:40], 'dominated by len(buffer) == len(located manifest); unequal edge cannot reach the write', ok, site=loc(t.get('span')), detail='%d comparisons in the function' % len(cs))
            seeks = set(b2 for b2, t2 in calls if t2['fd'].endswith('Seek::seek'))
            oblig.must_pass_through(ctx, 'C08-D2', fn, lambda b3, blk, _w=bi: b3 == _w, lambda b3, blk, _s=seeks: b3 in _s, 'write_all(%s)' % buf[:40], 'seek to the located manifest position')
    # ---- D3 region reporter uses the carrier
    ws = sorted(im['self_ty'] for im in prog.impls if im['trait'].endswith('asset_io::CAIWriter') and im['self_ty'].startswith(AH))
    for ty in ws:
        short = ty.replace(AH, '')
        n = '<%s as asset_io::CAIWriter>::get_object_locations_from_stream' % ty
        if not ctx.require(prog.has(n), n) or not ctx.require(short in C07.CARRIER, 'carrier table entry for ' + short):
            continue
        ctx.analysed(n, len(list(prog.fn(n).calls())))
        if short in NO_LOCATIONS:
            ctx.note('%s: %s' % (short, NO_LOCATIONS[short]))
            continue
        items = C07.closure_items(prog, n)
        for c in C07.CARRIER[short]:
            if c.endswith('_DEPRECATED'):
                continue
            ctx.ob('C08-D3', ty, 'carrier const ' + c, 'referenced in the call closure of get_object_locations_from_stream', c in items)
    # ---- D4 SVG: the store is embedded as padded base64 text; the length of the reported manifest region must be the length of that text:
    # taken from the encoder itself, or an arithmetic form that equals 4*ceil(n/3) for every store length n (checked for n = 0..300)
    import finite
    sn = '<asset_handlers::svg_io::SvgIO as asset_io::CAIWriter>::get_object_locations_from_stream'
    if ctx.require(prog.has(sn), sn):
        fn = prog.fn(sn)
        cai = None
        for b in fn.B:
            for dst, rv in b['s']:
                if rv['k'] == 'agg' and str(rv.get('adt', '')).endswith('HashObjectPositions') and len(rv['ops']) >= 3 and T.op_term(fn, rv['ops'][2]).startswith('Cai'):
                    cai = T.op_term(fn, rv['ops'][1])
        if ctx.ob('C08-D4', sn, 'Cai position', 'constructed', cai is not None, nontrivial=False):
            if re.match(r'^(String::|str::)?len\((base64::)?encode\(', cai):
                ok, how = True, 'length of encode(store) (the writer\'s encoder)'
            else:
                vals = [(n, finite.eval_arith(cai, n)) for n in range(0, 301)]
                if any(v is None for n, v in vals):
                    ok, how = False, 'length expression of unknown shape: %s' % cai[:100]
                else:
                    bad = [(n, v) for n, v in vals if v != 4 * (-(-n // 3))]
                    ok, how = not bad, ('equals 4*ceil(n/3) for n = 0..300' if not bad else 'differs from the padded base64 length at n=%d: %d vs %d' % (bad[0][0], bad[0][1], 4 * (-(-bad[0][0] // 3))))
            ctx.ob('C08-D4', sn, 'length of the reported manifest region', 'the length of the embedded base64 text', ok, detail=how)

