"""Canonical symbolic descriptions ("terms") of call-site atoms, and truth conditions of
predicate functions/closures.  Terms let rule tables name a guard semantically
(e.g.  any[eq(code(a1),CLAIM_SIGNATURE_VALIDATED)](iter(deref(success(active_manifest)))) )
instead of by block number or source position.
"""
import re
from lib import Engine, Fn, const_val, short, classify_ret, IDENTITY_CALLS

TRANSPARENT = set(IDENTITY_CALLS) | {
    'core::slice::<impl [T]>::iter', 'std::iter::IntoIterator::into_iter', 'std::clone::Clone::clone',
    'std::string::String::as_str', 'std::borrow::ToOwned::to_owned', 'std::string::ToString::to_string',
    'std::vec::Vec::<T, A>::as_slice', 'core::str::<impl str>::as_bytes', 'std::string::String::as_bytes',
    'std::iter::Iterator::by_ref', 'std::ops::Try::branch', 'std::future::Future::poll', 'std::boxed::Box::<T>::pin', 'std::borrow::Cow::<\'_, B>::as_ref',
}


def short2(fd):
    fd = re.sub(r'<impl [^>]*>', '', fd)
    fd = re.sub(r'::<[^<>]*(<[^<>]*>[^<>]*)*>', '', fd)
    parts = [p for p in fd.split('::') if p]
    if len(parts) >= 2 and parts[-2][:1].isupper():
        return parts[-2].strip('<>') + '::' + parts[-1]
    return parts[-1] if parts else fd


def _join(base, names):
    if names and names[0].startswith('^'):
        return '.'.join([names[0][1:]] + list(names[1:]))
    return base + '.' + '.'.join(names)


def item_short(p):
    return p.split('::')[-1]


class Terms:
    def __init__(self, prog):
        self.prog = prog
        self._truth = {}

    def field_names(self, fn, base_local, proj, ty=None, want_ty=False):
        """best-effort field-name resolution of a projection rooted at a local (or at a value of type ty)"""
        names, cur = self._field_names(fn, base_local, proj, ty)
        return (names, cur) if want_ty else names

    def origin_term(self, fn, o):
        """term + type of a flow-insensitive origin (see Fn.origins)"""
        k = o[0]
        if k in ('arg', 'local'):
            return self.local_term(fn, o[1]) if k == 'local' else fn.name_of(o[1]), fn.local_ty(o[1])
        if k == 'call':
            d = fn.B[o[1]]['t']['dest']
            return self.call_term(fn, o[1]), (fn.local_ty(d['l']) if not d['p'] else None)
        if k == 'field':
            bt, bty = self.origin_term(fn, o[1])
            if o[1][0] in ('arg', 'local'):
                names, cur = self._field_names(fn, o[1][1], list(o[2]), None)
            else:
                names, cur = self._field_names(fn, None, list(o[2]), bty or '?')
            return _join(bt, names), cur
        if k in ('item', 'str', 'const', 'k'):
            return str(o[1]), None
        if k == 'agg':
            rv = fn.B[o[1]]['s'][o[2]][1]
            return (rv.get('variant') or 'aggregate') + '(..)', None
        return k, None

    def _field_names(self, fn, base_local, proj, ty=None):
        t = ty if ty is not None else fn.local_ty(base_local)
        out = []
        cur = t
        first = True
        for p in proj:
            if p == '*':
                continue
            if first and base_local == 1 and ty is None and fn.upvars and p.startswith('.') and int(p[1:]) in fn.upvars:
                uv = fn.upvars[int(p[1:])]
                out.append('^' + uv); cur = None; first = False
                # type of the captured variable: the parent's local of the same name
                par = fn.d.get('parent')
                if par and par in self.prog.bodies:
                    pf = self.prog.fn(par)
                    for l, n in pf.varnames.items():
                        if n == uv:
                            cur = pf.local_ty(l)
                            break
                continue
            first = False
            if p == '*':
                continue
            if p.startswith('as '):
                vn = p[3:].split('#')[0]
                out.append(vn)
                # Option<T>/Result<T,E> payload types
                if cur is not None and vn in ('Some', 'Ok') and '<' in cur:
                    inner = cur[cur.index('<') + 1:cur.rindex('>')]
                    depth = 0; cut = len(inner)
                    for i, ch in enumerate(inner):
                        if ch in '<([':
                            depth += 1
                        elif ch in '>)]':
                            depth -= 1
                        elif ch == ',' and depth == 0:
                            cut = i; break
                    cur = ('tuple1:' + inner[:cut].strip())
                else:
                    cur = None
                continue
            if p.startswith('.'):
                i = int(p[1:])
                name = None
                if cur is not None and cur.startswith('tuple1:'):
                    cur = cur[7:] if i == 0 else None
                    out.append(str(i))
                    continue
                if cur is not None:
                    from lib import strip_ty, ty_head
                    adt = self.prog.adts.get(ty_head(cur))
                    if adt and len(adt['variants']) == 1 and i < len(adt['variants'][0]['fields']):
                        f = adt['variants'][0]['fields'][i]
                        name, cur = f[0], f[1]
                    else:
                        cur = None
                out.append(name if name is not None else str(i))
            else:
                out.append(p); cur = None
        return out, cur

    def op_term(self, fn, op, depth=0):
        if 'c' in op:
            v = const_val(op)
            if v[0] == 'item':
                return item_short(v[1])
            if v[0] == 'str':
                return '"%s"' % v[1]
            if v[0] == 'const':
                return str(v[1])
            if v[0] == 'fnitem':
                return 'fn:' + short2(v[1])
            return str(v[1])[:40]
        l = op['l']
        proj = [p for p in op['p'] if p != '*']
        base = self.local_term(fn, l, depth)
        if proj:
            # try to resolve names from the root local type
            names = self.field_names(fn, l, op['p']) if not self._has_def(fn, l) or (1 <= l <= fn.argc) else None
            if names is None:
                names = self._proj_names_via_origin(fn, l, op['p'])
            return _join(base, names)
        return base

    def _has_def(self, fn, l):
        return bool(fn.defs.get(l))

    def _proj_names_via_origin(self, fn, l, proj):
        return self.field_names(fn, l, proj)

    def local_term(self, fn, l, depth=0, seen=None):
        if depth > 24:
            return '_'
        seen = seen or set()
        if l in seen:
            return fn.name_of(l)
        seen = seen | {l}
        ds = [d for d in fn.defs.get(l, ()) if d[0] in ('stmt', 'call')]
        if l in fn.varnames and (len(ds) != 1 or (1 <= l <= fn.argc)):
            return fn.varnames[l]
        if 1 <= l <= fn.argc and not ds:
            return fn.varnames.get(l, 'a%d' % l)
        if len(ds) == 0:
            return fn.name_of(l)
        if len(ds) > 1:
            alts = sorted(set(self._def_term(fn, d, depth, seen) for d in ds))
            if len(alts) == 1:
                return alts[0]
            return '{' + '|'.join(alts) + '}'
        return self._def_term(fn, ds[0], depth, seen)

    def _def_term(self, fn, d, depth, seen):
        if d[0] == 'call':
            return self.call_term(fn, d[1], depth + 1)
        rv = d[3]
        k = rv['k']
        if k in ('use', 'cast'):
            o = rv['o']
            if 'l' in o:
                t = self.local_term(fn, o['l'], depth + 1, seen)
                proj = [p for p in o['p'] if p != '*']
                if proj:
                    return _join(t, self.field_names(fn, o['l'], o['p']))
                return t
            return self.op_term(fn, o, depth + 1)
        if k in ('ref', 'rawptr'):
            p = rv['pl']
            t = self.local_term(fn, p['l'], depth + 1, seen)
            proj = [x for x in p['p'] if x != '*']
            if proj:
                return _join(t, self.field_names(fn, p['l'], p['p']))
            return t
        if k == 'agg':
            if 'closure' in rv:
                return 'λ' + self.truth(rv['closure'])
            if 'variant' in rv:
                return '%s(%s)' % (rv['variant'], ','.join(self.op_term(fn, o, depth + 1) for o in rv['ops']))
            return '(' + ','.join(self.op_term(fn, o, depth + 1) for o in rv['ops']) + ')'
        if k == 'discr':
            return 'discr(%s)' % self.local_term(fn, rv['pl']['l'], depth + 1, seen)
        if k == 'un':
            return '%s(%s)' % (rv['op'].lower(), self.op_term(fn, rv['a'], depth + 1))
        if k == 'bin':
            return '%s(%s,%s)' % (rv['op'].lower(), self.op_term(fn, rv['a'], depth + 1), self.op_term(fn, rv['b'], depth + 1))
        return 'expr'

    def call_term(self, fn, bi, depth=0):
        t = fn.B[bi]['t']
        fd = t['fd']
        args = t['args']
        if fd in TRANSPARENT and args:
            return self.op_term(fn, args[0], depth + 1)
        if depth > 24:
            return short2(fd) + '(…)'
        parts = []
        clos = []
        for a in args:
            if 'l' in a and fn.locals[a['l']].get('closure') and not a['p']:
                cn = fn.locals[a['l']]['closure']
                clos.append(self.truth(cn))
            else:
                parts.append(self.op_term(fn, a, depth + 1))
        name = short2(t.get('r') or fd) if fd.startswith('<') or '::' not in fd else short2(fd)
        s = name
        if clos:
            s += '[' + ';'.join(clos) + ']'
        return s + '(' + ','.join(parts) + ')'

    def atom_term(self, fn, a):
        k = a[0]
        if k == 'call':
            return self.call_term(fn, a[1])
        if k == 'ok':
            return 'ok(' + self.atom_term(fn, a[1]) + ')'
        if k in ('discr', 'not', 'try'):
            return k + '(' + self.atom_term(fn, a[1]) + ')'
        if k == 'cmp':
            return '%s(%s,%s)' % (a[1].lower(), self.atom_term(fn, a[2]), self.atom_term(fn, a[3]))
        if k == 'local':
            return self.local_term(fn, a[1])
        if k == 'place':
            base = a[1]
            if base[0] == 'local':
                return _join(self.local_term(fn, base[1]), self.field_names(fn, base[1], a[2]))
            if base[0] == 'call' and not fn.B[base[1]]['t']['dest']['p']:
                ty = fn.local_ty(fn.B[base[1]]['t']['dest']['l'])
                return self.atom_term(fn, base) + '.' + '.'.join(self.field_names(fn, None, a[2], ty=ty))
            return self.atom_term(fn, base) + '.' + '.'.join(p.lstrip('.') for p in a[2])
        if k == 'item':
            return item_short(a[1])
        if k == 'str':
            return '"%s"' % a[1]
        if k == 'const':
            return str(a[1])
        if k == 'variant':
            return '%s(%s)' % (a[2], ','.join(self.atom_term(fn, x) for x in a[3]))
        return str(a)

    # ---- truth condition of a bool-returning closure / fn (DNF over true-returning paths)
    def truth(self, name, maxstates=20000):
        return self.truth_dnf(name, maxstates)[0]

    def falsity_dnf(self, name, maxstates=20000):
        """DNF over the paths on which a bool function returns false (or a non-constant value)"""
        return self.truth_dnf(name, maxstates, want=0)

    def truth_dnf(self, name, maxstates=20000, want=1):
        """(canonical string, [frozenset(literals)] or None when opaque)"""
        rname = name
        name = (rname, want)
        if name in self._truth:
            return self._truth[name]
        self._truth[name] = ('<rec>', None)
        if rname not in self.prog.bodies:
            self._truth[name] = (short2(rname), None)
            return self._truth[name]
        return self._truth_compute(rname, name, maxstates, want)

    def _truth_compute(self, rname, name, maxstates, want):
        fn = self.prog.fn(rname)
        eng = Engine(fn, maxstates=maxstates)
        disj = set()

        def mon(bi, b, env, facts, ms):
            if b['t']['k'] == 'ret':
                return ms, [('ret', env.get(0))]
            return ms, []
        try:
            hits = eng.explore(mon)
        except RuntimeError:
            self._truth[name] = ('opaque:' + short2(rname), None)
            return self._truth[name]
        for (lab, v), bi, facts, env, key in hits:
            conj = []
            if v is None:
                final = 'unknown'
            elif v[0] == 'const':
                if fn.d['ret'] == 'bool':
                    if v[1] != want:
                        continue
                    final = None
                else:
                    final = str(v[1])
            else:
                final = self.atom_term(fn, v)
            for a, val in facts.items():
                tt = self.atom_term(fn, a)
                if isinstance(val, tuple):
                    conj.append('%s∉%s' % (tt, list(val[1])))
                elif val in (0, 1) and (a[0] in ('ok', 'cmp', 'call')):
                    conj.append(tt if val else '!' + tt)
                else:
                    conj.append('%s=%s' % (tt, val))
            if final is not None:
                conj.append(final if want else '!' + final)
            disj.add(frozenset(conj))
        strs = sorted('&'.join(sorted(c)) or 'true' for c in disj)
        s = ' || '.join(strs) if strs else 'false'
        self._truth[name] = (s, sorted(disj, key=lambda c: sorted(c)))
        return self._truth[name]


def _split_args(s):
    out, depth, cur = [], 0, ''
    for ch in s:
        if ch in '([{':
            depth += 1
        elif ch in ')]}':
            depth -= 1
        if ch == ',' and depth == 0:
            out.append(cur); cur = ''
        else:
            cur += ch
    out.append(cur)
    return out


def expand_literal(T, lit, depth=0):
    """alternatives for one literal: if it is a call `helper(args)` / `!helper(args)` of a bool-returning crate function whose truth condition
    is known, the list of clause literal sets of that condition with the parameters replaced by the argument terms; else [[lit]]"""
    # `ok(helper(args))`: a Result-returning private helper of the crate that returned Ok -> the conditions under which it returns Ok
    mo = re.fullmatch(r'ok\(([A-Za-z_][\w:]*)\((.*)\)\)', lit)
    if mo and depth <= 2:
        short, args = mo.groups()
        cands = [n for n in T.prog.bodies if (n == short or n.endswith('::' + short)) and T.prog.bodies[n].get('kind') in ('fn', 'assoc') and str(T.prog.bodies[n].get('ret', '')).startswith('std::result::Result<')]
        if len(cands) == 1:
            h = cands[0]
            hf = T.prog.fn(h)
            if len(hf.B) <= 80:
                key = ('okcond', h)
                if key not in T._truth:
                    try:
                        eng, hits = ret_hits(hf, maxstates=20000)
                        T._truth[key] = [sorted(fact_literals(T, hf, facts)) for cls, facts, env, k_, bi in hits if cls == 'Ok'][:8]
                    except Exception:
                        T._truth[key] = None
                alts = T._truth[key]
                params = [hf.name_of(k) for k in range(1, hf.argc + 1)]
                actual = _split_args(args)
                if alts and len(actual) == len(params):
                    out = []
                    for clause in alts:
                        lits = []
                        for l in clause:
                            for p, a in zip(params, actual):
                                l = re.sub(r'(?<![\w.])%s(?![\w])' % re.escape(p), a.replace('\\', '\\\\'), l)
                            lits.append(l)
                        out.append(lits + [lit])
                    return out[:8]
    m = re.fullmatch(r'(!?)([A-Za-z_][\w:]*)\((.*)\)', lit)
    if not m or depth > 2:
        return [[lit]]
    neg, short, args = m.groups()
    cands = [n for n in T.prog.bodies if (n == short or n.endswith('::' + short)) and T.prog.bodies[n].get('kind') in ('fn', 'assoc') and T.prog.bodies[n].get('ret') == 'bool']
    if len(cands) != 1:
        return [[lit]]
    h = cands[0]
    try:
        dnf = (T.falsity_dnf(h) if neg else T.truth_dnf(h))[1]
    except Exception:
        dnf = None
    if not dnf or len(dnf) > 6:
        return [[lit]]
    hf = T.prog.fn(h)
    params = [hf.name_of(k) for k in range(1, hf.argc + 1)]
    actual = _split_args(args)
    if len(actual) != len(params):
        return [[lit]]
    out = []
    for clause in dnf:
        lits = []
        for l in clause:
            for p, a in zip(params, actual):
                l = re.sub(r'(?<![\w.])%s(?![\w])' % re.escape(p), a.replace('\\', '\\\\'), l)
            lits.append(l)
        # nested helpers
        alts = [[]]
        for l in lits:
            sub = expand_literal(T, l, depth + 1)
            alts = [x + y for x in alts for y in sub][:16]
        out.extend(alts)
    return out[:16]


def expand_dnf(T, dnf):
    """inline bool helper calls in every clause (distributing their disjunctions)"""
    if not dnf:
        return dnf
    res = []
    for clause in dnf:
        alts = [[]]
        for l in clause:
            alts = [x + y for x in alts for y in expand_literal(T, l)][:32]
        res.extend(frozenset(a) for a in alts)
    return res


def canon_lit(l):
    """one spelling per literal: operands of symmetric comparisons sorted, a > b written b < a, and `!(a != b)` written `a == b`"""
    import decisions
    l = decisions.canon_term(l)
    for a, b in (('!PartialEq::ne(', 'PartialEq::eq('), ('!ne(', 'eq('), ('!PartialEq::eq(', 'PartialEq::ne('), ('!eq(', 'ne(')):
        if l.startswith(a):
            return b + l[len(a):]
    return l


def norm_dnf(T, dnf):
    """truth condition with crate-local bool helpers inlined and every literal in canonical spelling"""
    if not dnf:
        return dnf
    return [frozenset(canon_lit(l) for l in c) for c in expand_dnf(T, dnf)]


def literal_alternatives(T, fn, facts):
    """list of literal sets: fact_literals with bool-helper calls replaced by their conditions; a requirement on the facts must hold for EVERY alternative"""
    base = fact_literals(T, fn, facts)
    alts = [set()]
    for l in base:
        sub = expand_literal(T, l)
        if sub == [[l]]:
            for a in alts:
                a.add(l)
        else:
            alts = [set(a) | set(x) | {l} for a in alts for x in sub][:32]
    return alts


def fact_literals(T, fn, facts):
    """facts dict -> set of literal strings ('TERM', '!TERM', 'TERM=v', 'TERM∉[..]')"""
    out = set()
    for a, val in facts.items():
        tt = T.atom_term(fn, a)
        if isinstance(val, tuple):
            out.add('%s∉%s' % (tt, list(val[1])))
        elif val in (0, 1) and a[0] in ('ok', 'cmp', 'call'):
            out.add(tt if val else '!' + tt)
        else:
            out.add('%s=%s' % (tt, val))
    return out


def ret_hits(fn, eng=None, maxstates=300000):
    """explore fn; list of (ret-class, facts, env, key, bi) at every return"""
    from lib import Engine, classify_ret
    eng = eng or Engine(fn, maxstates=maxstates)

    def mon(bi, b, env, facts, ms):
        if b['t']['k'] == 'ret':
            return ms, [('ret', env.get(0))]
        return ms, []
    hits = eng.explore(mon)
    return eng, [(classify_ret(fn, v), facts, env, key, bi) for (lab, v), bi, facts, env, key in hits]
