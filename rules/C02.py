"""C02 Tamper evidence: manifest store bytes (verdict plumbing)."""
import re
from lib import CallGuard, LocalGuard, loc, classify_ret, Engine
from terms import Terms, ret_hits, fact_literals
import logs
import oblig
from oblig import TermGuard
import verdict

EXPLANATION = ("All-paths MIR rules on Claim::verify_internal, Claim::verify_claim, Verifier::verify_signature and Store::ingredient_checks (both flavours): "
               "assertion.hashedURI.match is logged only on the `true` outcome of the hash comparison, the false outcome and a missing assertion reach Failure logs, "
               "undeclared assertions log a Failure and return Err; claimSignature.validated/insideValidity only when the COSE verification result is Ok and "
               "`validated` is true, both other arms log claimSignature.mismatch as Failure; CertificateInfo{validated:true} only after validator.validate = Ok; "
               "ingredient.manifest.validated only when the manifest box hash matched, a mismatch without redactions is a Failure; every found ingredient is "
               "verified with verify_claim; the bytes handed to COSE verification are the claim's original bytes. Decides plumbing, not hash coverage.")
RULE = "obligation = (function, log/return site, guard) enumerated from log sites and comparison call sites"

VI = 'claim::Claim::verify_internal'


def run(ctx):
    prog = ctx.prog(('c2pa',))
    consts = logs.const_strings(prog)
    T = Terms(prog)
    if ctx.require(prog.has(VI), VI):
        fn = prog.fn(VI)
        ctx.analysed(VI, len(list(fn.calls())))
        sites = logs.log_sites(prog, fn, consts)

        def blocks(code, kind=None):
            return set(s['bi'] for s in sites if ('str', code) in s['codes'] and (kind is None or s['kind'] == kind))
        # D1 hashed-URI match/mismatch
        def ap_assert(f, bi, t):
            term = T.call_term(f, bi)
            return 'ClaimAssertion::hash' in term or 'ca' in term
        g_true = CallGuard(r'hash_utils::vec_compare$', 'true', argpred=ap_assert, name='vec_compare(ca.hash(), assertion.hash()) = true')
        g_false = CallGuard(r'hash_utils::vec_compare$', 'false', argpred=ap_assert, name='vec_compare(ca.hash(), assertion.hash()) = false')
        m = blocks('assertion.hashedURI.match', 'success')
        ctx.floor('assertion.hashedURI.match success sites', len(m), 1, rule='C02-D1')
        oblig.effect_requires(ctx, 'C02-D1', fn, 'success log assertion.hashedURI.match', lambda bi, b: bi in m, [g_true])
        isfail, smap = oblig.log_block_pred(prog, fn, consts, kinds=('failure',), codes={'assertion.hashedURI.mismatch'})
        oblig.failing_edge_obligation(ctx, 'C02-D1', fn, g_false, isfail, 'assertion.hashedURI.mismatch Failure log')
        # the compared operands are the stored assertion's hash and the claim's hashed URI
        for bi, t in fn.calls():
            if g_true.matches_call(fn, bi, t):
                term = T.call_term(fn, bi)
                ctx.ob('C02-D1', VI, 'hash comparison operands', 'ClaimAssertion::hash(ca) vs HashedUri::hash(assertion)', 'ClaimAssertion::hash' in term and re.search(r'HashedUri::hash|assertion', term) is not None, detail=term[:160], site=loc(t['span']))
        g_none = CallGuard(r'Claim::get_claim_assertion$', 'none', name='get_claim_assertion = None')
        isf2, _ = oblig.log_block_pred(prog, fn, consts, kinds=('failure',), codes={'assertion.missing'})
        oblig.failing_edge_obligation(ctx, 'C02-D1', fn, g_none, isf2, 'assertion.missing Failure log')
        # undeclared assertions: ca_tracking_list non-empty => Failure log and Err
        und = blocks('assertion.undeclared', 'failure')
        ctx.ob('C02-D1', VI, 'assertion.undeclared', 'Failure log present', bool(und))
        g_empty_false = TermGuard(T, r'is_empty\(ca_tracking_list\)$|Vec::is_empty\(ca_tracking_list\)$', 'false', name='ca_tracking_list.is_empty() = false')
        oblig.failing_edge_obligation(ctx, 'C02-D1', fn, CallGuard(r'Vec::<T, A>::is_empty$', 'false', argpred=lambda f, bi, t: 'claim_assertion_store' in T.call_term(f, bi) or 'ca_tracking_list' in T.call_term(f, bi), name='ca_tracking_list.is_empty() = false'),
                                      lambda bi, b: False, 'an Err return (undeclared assertions)')
        # D2 claim signature codes
        g_ok = LocalGuard('verified', 'ok', name='verified = Ok(vi)')
        g_valid = TermGuard(T, r'^verified\.Ok\.0\.validated$|\.validated$', 'true', name='vi.validated = true')
        for code in ('claimSignature.validated', 'claimSignature.insideValidity'):
            bl = blocks(code, 'success')
            ctx.floor(code + ' success sites in verify_internal', len(bl), 1, rule='C02-D2')
            oblig.effect_requires(ctx, 'C02-D2', fn, 'success log ' + code, lambda bi, b, _b=bl: bi in _b, [g_ok])
            oblig.effect_requires(ctx, 'C02-D2', fn, 'success log ' + code, lambda bi, b, _b=bl: bi in _b, [g_valid])
        mm = blocks('claimSignature.mismatch', 'failure')
        ctx.floor('claimSignature.mismatch Failure sites in verify_internal', len(mm), 2, rule='C02-D2')
        # Err arm and !validated arm both log mismatch: from `verified = Err` every path passes a mismatch failure log
        isf3 = lambda bi, b: bi in mm
        eng = Engine(fn, track_atom=lambda a: g_ok.track_atom(fn, a) or g_valid.track_atom(fn, a), track_calls=lambda bi, t: False)

        def mon(bi, b, env, facts, ms):
            # ms: 0 none, 1 bad-signature pending, 2 discharged
            if ms == 0 and (LocalGuard('verified', 'err').holds(fn, facts) or TermGuard(T, r'\.validated$', 'false').holds(fn, facts)):
                ms = 1
            if ms == 1 and bi in mm:
                ms = 2
            if b['t']['k'] == 'ret' and ms == 1 and classify_ret(fn, env.get(0)) not in ('Err', 'residual'):
                return ms, [('bad', bi)]
            return ms, []
        mon.init = 0
        hits = eng.explore(mon, forget=True)
        ctx.states += eng.states
        ctx.ob('C02-D2', VI, 'verified = Err or !vi.validated', 'claimSignature.mismatch Failure log (or Err) on every path', not hits,
               detail='' if not hits else 'a path leaves the bad-signature arm without logging claimSignature.mismatch')
    # D2b CertificateInfo validated:true only after validator.validate Ok
    for name in [n for n in prog.fns() if re.match(r"^crypto::cose::verifier::Verifier::<'_>::verify_signature(_async::\{closure#0\})?$", n)]:
        fn = prog.fn(name)
        ctx.analysed(name, len(list(fn.calls())))
        agg = [bi for bi, b in enumerate(fn.B) for dst, rv in b['s'] if rv['k'] == 'agg' and rv.get('adt', '').endswith('CertificateInfo')]
        ctx.ob('C02-D2', name, 'CertificateInfo aggregate', 'present', bool(agg))
        g = CallGuard(r'RawSignatureValidator::validate$|::validate$', 'ok', argpred=lambda f, bi, t: 'validator' in T.call_term(f, bi).lower() or 'validate' in t['fd'], name='validator.validate(sig, tbs, pk) = Ok')
        oblig.effect_requires(ctx, 'C02-D2', fn, 'construct CertificateInfo{validated: ..}', lambda bi, b, _a=set(agg): bi in _a, [g])
        for bi in agg:
            for dst, rv in fn.B[bi]['s']:
                if rv['k'] == 'agg' and rv.get('adt', '').endswith('CertificateInfo'):
                    adt = prog.adts.get(rv['adt']) or {}
                    fields = [f[0] for f in (adt.get('variants') or [{'fields': []}])[0]['fields']]
                    if 'validated' in fields:
                        op = rv['ops'][fields.index('validated')]
                        ctx.ob('C02-D2', name, 'CertificateInfo.validated', 'constant true only after validation (guard above)', 'c' in op, detail=str(op)[:80], nontrivial=False)
        # the validated bytes are the signature over the tbs of the same sign1
        for bi, t in fn.calls():
            if g.matches_call(fn, bi, t) and len(t['args']) >= 3:
                term = T.call_term(fn, bi)
                ctx.ob('C02-D2', name, 'validate(sig, tbs, pk)', 'sig = sign1.signature, tbs = sign1.tbs_data(additional_data)', 'tbs_data' in term and term.count('parse_cose_sign1') >= 2, detail=term[:200], site=loc(t['span']))
    # D3 ingredient checks
    for name in ('store::Store::ingredient_checks', 'store::Store::ingredient_checks_async::{closure#0}'):
        if not ctx.require(prog.has(name), name):
            continue
        fn = prog.fn(name)
        ctx.analysed(name, len(list(fn.calls())))
        sites = logs.log_sites(prog, fn, consts)
        val = set(s['bi'] for s in sites if ('str', 'ingredient.manifest.validated') in s['codes'] and s['kind'] == 'success')
        ctx.floor('ingredient.manifest.validated success sites', len(val), 1, rule='C02-D3')
        g_match = CallGuard(r'hash_utils::vec_compare$', 'true', argpred=lambda f, bi, t: 'manifest_box_hash' in T.call_term(f, bi), name='vec_compare(ingredient hash, manifest box hash) = true')
        oblig.effect_requires(ctx, 'C02-D3', fn, 'success log ingredient.manifest.validated', lambda bi, b, _v=val: bi in _v, [g_match])
        mis = set(s['bi'] for s in sites if ('str', 'ingredient.manifest.mismatch') in s['codes'] and s['kind'] == 'failure')
        ctx.floor('ingredient.manifest.mismatch Failure sites', len(mis), 1, rule='C02-D3')
        # both comparisons false and no redactions => mismatch failure
        g_leg_false = CallGuard(r'hash_utils::verify_by_alg$', 'false', name='legacy verify_by_alg = false')
        oblig.failing_edge_obligation(ctx, 'C02-D3', fn, g_leg_false, lambda bi, b, _m=mis: bi in _m, 'ingredient.manifest.mismatch Failure log')
        # missing ingredient manifest => Failure
        miss = set(s['bi'] for s in sites if ('str', 'ingredient.manifest.missing') in s['codes'] and s['kind'] == 'failure')
        ctx.ob('C02-D3', name, 'ingredient.manifest.missing', 'Failure log present', bool(miss))
        # verify_claim is called for every found ingredient before the recursive descent
        vc = [bi for bi, t in fn.calls() if re.search(r'claim::Claim::verify_claim(_async)?$', t['fd'])]
        rec = [bi for bi, t in fn.calls() if re.search(r'store::Store::ingredient_checks(_async)?$', t['fd'])]
        ctx.ob('C02-D3', name, 'Claim::verify_claim call', 'present', bool(vc))
        if vc and rec:
            oblig.must_pass_through(ctx, 'C02-D3', fn, lambda bi, b, _r=set(rec): bi in _r, lambda bi, b, _v=set(vc): bi in _v, 'recursive ingredient_checks', 'Claim::verify_claim on the ingredient')
        # redaction path: claimSignature comparison logged both ways
        for code, kind in (('ingredient.claimSignature.mismatch', 'failure'), ('ingredient.claimSignature.missing', 'failure')):
            ok = any(('str', code) in s['codes'] and s['kind'] == kind for s in sites) or any(closure_has(prog, fn, consts, code, kind))
            ctx.ob('C02-D3', name, code, 'Failure log present', ok)
    # D4 original bytes
    for name in ('claim::Claim::verify_claim', 'claim::Claim::verify_claim_async::{closure#0}'):
        if not ctx.require(prog.has(name), name):
            continue
        fn = prog.fn(name)
        ctx.analysed(name, len(list(fn.calls())))
        for bi, t in fn.calls():
            if re.search(r'cose_validator::verify_cose(_async)?$|crypto::cose::sign1::parse_cose_sign1$|parse_cose_sign1$', t['fd']):
                term = T.op_term(fn, t['args'][1])
                if 'l' in t['args'][1]:
                    term = ' | '.join(sorted(set(T.origin_term(fn, o)[0] for o in fn.origins(t['args'][1]))))
                ok = 'original_bytes' in term and all(('original_bytes' in a or 'Claim::data' in a or a == 'Vec::new()') for a in term.split(' | '))
                ctx.ob('C02-D4', name, t['fd'].split('::')[-1] + '(sig, data, ..)', 'data = claim.original_bytes (Some edge) | freshly generated claim.data()', ok, detail='data argument: ' + term[:160], site=loc(t['span']))
        vi = [bi for bi, t in fn.calls() if t['fd'] == VI]
        ctx.ob('C02-D4', name, 'Claim::verify_internal', 'invoked with the verification result', bool(vi))
        for bi in vi:
            term = T.op_term(fn, fn.B[bi]['t']['args'][2])
            ctx.ob('C02-D4', name, 'verify_internal(.., verified, ..)', 'verified = verify_cose(..)', 'verify_cose' in term, detail=term[:120])
    # D5 code/kind agreement restricted to this property's codes
    pre = ('assertion.', 'claimSignature.', 'ingredient.', 'claim.', 'manifest.')
    verdict.code_kind_agreement(ctx, prog, 'C02-D5', code_filter=lambda c: c.startswith(pre))

    # ---- D4 data boxes: a box is handed out for a hashed reference only when the stored hash equals the hash in the reference
    for name in [n for n in prog.fns() if re.match(r'^claim::Claim::get_databox::\{closure#\d+\}$', n)]:
        f2 = prog.fn(name)
        if not any(rv['k'] == 'agg' and rv.get('variant') == 'Some' for b in f2.B for d, rv in b['s']):
            continue
        ctx.analysed(name, len(list(f2.calls())))
        gh = CallGuard(r'hash_utils::vec_compare$', 'true', name='vec_compare(stored hash, reference hash) = true')
        oblig.returns_only_if(ctx, 'C02-D4', f2, 'Some', [gh], name='Some(data box)')
    ctx.ob('C02-D4', 'claim::Claim::get_databox', 'lookup closure', 'exists', any(re.match(r'^claim::Claim::get_databox::\{closure#\d+\}$', n) for n in prog.fns()), nontrivial=False)


def closure_has(prog, fn, consts, code, kind):
    for bi, t in fn.calls():
        for a in t['args']:
            if 'l' in a and fn.locals[a['l']].get('closure'):
                c = fn.locals[a['l']]['closure']
                if c in prog.bodies:
                    for s in logs.log_sites(prog, prog.fn(c), consts):
                        if ('str', code) in s['codes'] and s['kind'] == kind:
                            yield True
