"""C06 Certificate profile violations make the manifest invalid."""
import re
from lib import CallGuard, loc, classify_ret, Engine
from terms import Terms
import logs
import oblig
import rlogged
import verdict
import discipline

EXPLANATION = ("R-LOGGED rule + obligation table over MIR: Verifier::verify_signature discards the result of the profile check "
               "(`.ok() // already logged`), so every path of check_certificate_profile / check_end_entity_certificate_profile (closures included) to an "
               "Err exit must pass a Failure-kind log with a signingCredential.* code; each profile rule named by the property is anchored on a resolved "
               "callee/const (is_ca, version, validity, has_allowed_eku, key usage, unique ids, curve/algorithm OIDs, RSA modulus bits) whose failing edge "
               "must reach such a log and an Err; Ok(()) carries no Failure log; the profile check is invoked before CertificateInfo is returned. "
               "Decides the plumbing, not whether each predicate's constants are right.")
RULE = "obligation = (function, Err exit | rule anchor, Failure log); exits enumerated from `?`/return Err sites of the MIR"

CCP = 'crypto::cose::certificate_profile::check_certificate_profile'
CEE = 'crypto::cose::certificate_profile::check_end_entity_certificate_profile'
# accepted unlogged exits, one line of reason each (exact keys)
TABLED_EXITS = {
}
CODES = {'signingCredential.invalid', 'signingCredential.expired'}
# rule anchors: (description, callee regex, failing outcome)
ANCHORS = [
    ('CA certificate used as end entity', CEE, r'TbsCertificate::<\'a>::is_ca$', 'true'),
    ('validity at time-stamp / now', CCP, r'Validity::is_valid_at$', 'false'),
    ('allowed extended key usage present', CCP, r'CertificateTrustPolicy::has_allowed_eku$', 'none'),
]


def run(ctx):
    prog = ctx.prog(('c2pa',))
    consts = logs.const_strings(prog)
    T = Terms(prog)
    memo = {}
    # ---- D1 R-LOGGED
    for name in (CCP, CEE):
        if not ctx.require(prog.has(name), name):
            continue
        fn = prog.fn(name)
        ctx.analysed(name, len(list(fn.calls())))
        exits = rlogged.unlogged_err_exits(prog, fn, 0, memo)
        # all Err exits (for the count)
        total = 0
        for i, b in enumerate(fn.B):
            t = b['t']
            if t['k'] == 'call' and t['fd'] == 'std::ops::FromResidual::from_residual' and t['dest']['l'] == 0:
                total += 1
            for dst, rv in b['s']:
                if dst['l'] == 0 and not dst['p'] and rv['k'] == 'agg' and rv.get('variant') == 'Err':
                    total += 1
        ctx.floor('Err exits of ' + name.split('::')[-1], total, 30 if name == CCP else 3, rule='C06-D1')
        bad_blocks = set(e[0] for e in exits)
        for i, desc, site in exits:
            if name == CEE and 'check_certificate_profile' in desc:
                continue   # derivative of CCP's own exits (reported there)
            ctx.ob('C06-D1', name, 'Err exit: ' + desc, 'a signingCredential.* Failure log precedes', False,
                   detail='Err exit at %s returns without logging while Verifier::verify_signature discards the result with .ok(): the violation is silently ignored' % site, site=site)
        ctx.ob('C06-D1', name, 'logged Err exits', '%d of %d' % (total - len(bad_blocks), total), True, nontrivial=False)
    # the discard sites exist and point at the R-LOGGED callees
    vs = [n for n in prog.fns() if re.match(r"^crypto::cose::verifier::Verifier::<'_>::verify_signature(_async::\{closure#0\})?$", n)]
    ctx.floor('verify_signature flavours', len(vs), 2, rule='C06-D4')
    for name in vs:
        fn = prog.fn(name)
        ctx.analysed(name, len(list(fn.calls())))
        prof = [bi for bi, t in fn.calls() if re.search(r'Verifier::<\'_>::verify_profile(_async)?$', t['fd'])]
        ctx.ob('C06-D4', name, 'profile check call', 'present', len(prof) >= 1)
        # D4: on every path to Ok(CertificateInfo) the profile check was invoked (must-pass-through), for policy-carrying variants:
        oblig.must_pass_through(ctx, 'C06-D4', fn, lambda bi, b: any(dst['l'] == 0 and not dst['p'] and rv['k'] == 'agg' and rv.get('variant') == 'Ok' for dst, rv in b['s']),
                                lambda bi, b, _p=set(prof): bi in _p, 'return Ok(CertificateInfo)', 'Verifier::verify_profile invoked')
        for bi in prof:
            cons = discipline.consumers(fn, bi)
            kinds = sorted(set(c[0] for c in cons))
            ctx.ob('C06-D4', name, 'result of verify_profile', 'discarded only because D1 (R-LOGGED) holds', kinds in (['discard'], ['propagate']), detail='consumers: %s' % cons[:3], site=loc(fn.B[bi]['t']['span']), nontrivial=False)
    # verify_profile itself: its own unlogged exits
    for name in [n for n in prog.fns() if re.match(r"^crypto::cose::verifier::Verifier::<'_>::verify_profile(_async::\{closure#0\})?$", n)]:
        fn = prog.fn(name)
        ctx.analysed(name, len(list(fn.calls())))
        for i, desc, site in rlogged.unlogged_err_exits(prog, fn, 0, memo):
            if 'check_end_entity_certificate_profile' in desc:
                continue
            if 'cert_chain_from_sign1' in desc:
                # same call is repeated and propagated with `?` in verify_signature after the discards
                ok = any(any(t['fd'].endswith('cert_chain_from_sign1') and any(c[0] == 'propagate' for c in discipline.consumers(prog.fn(v), bi)) for bi, t in prog.fn(v).calls()) for v in vs)
                ctx.ob('C06-D1', name, 'Err exit: ' + desc, 'the same extraction is repeated and propagated by verify_signature', ok, site=site)
                continue
            ctx.ob('C06-D1', name, 'Err exit: ' + desc, 'a signingCredential.* Failure log precedes', False, detail='unlogged Err exit at ' + site, site=site)
    # ---- D2 anchors
    for what, fname, pat, outcome in ANCHORS:
        if not prog.has(fname):
            continue
        fn = prog.fn(fname)
        isfail, sites = oblig.log_block_pred(prog, fn, consts, kinds=('failure',), codes=CODES)
        g = CallGuard(pat, outcome, name='%s (%s = %s)' % (what, pat.split('::')[-1].rstrip('$'), outcome))
        oblig.failing_edge_obligation(ctx, 'C06-D2', fn, g, isfail, 'a signingCredential.* Failure log')
    # every Failure log in the two functions has a profile code and is followed by Err on all paths
    nlog = 0
    for name in (CCP, CEE):
        if not prog.has(name):
            continue
        fn = prog.fn(name)
        for s in logs.log_sites(prog, fn, consts):
            nlog += 1
            codes = set(v for k, v in s['codes'] if k == 'str')
            ctx.ob('C06-D2', name, 'log ' + '/'.join(sorted(codes)) + ' via ' + s['method'], 'Failure kind with a signingCredential.* code', s['kind'] == 'failure' and codes <= CODES and bool(codes), site=loc(s['span']))
            ctx.ob('C06-D2', name, 'log ' + '/'.join(sorted(codes)) + ' via ' + s['method'], 'Err return follows on all paths', verdict.log_followed_by_err(fn, s['bi']), site=loc(s['span']))
    ctx.floor('profile Failure log sites', nlog, 17, rule='C06-D2')
    # version / self-signed / unique-id / algorithm anchors: constants referenced in the function
    if prog.has(CCP):
        fn = prog.fn(CCP)
        text = ' '.join(T.call_term(fn, bi) for bi, t in fn.calls() if t['fd'] == 'std::cmp::PartialEq::eq')
        fields = set()
        for b in fn.B:
            for dst, rv in b['s']:
                for o in __import__('lib').rv_operands(rv) + ([{'l': rv['pl']['l'], 'p': rv['pl']['p']}] if 'pl' in rv else []):
                    if 'l' in o and o.get('p'):
                        for nm in T.field_names(fn, o['l'], o['p']):
                            fields.add(nm)
        items = set()
        for b in fn.B:
            for dst, rv in b['s']:
                for o in __import__('lib').rv_operands(rv):
                    if o.get('item'):
                        items.add(o['item'].split('::')[-1])
            if b['t']['k'] == 'call':
                for o in b['t']['args']:
                    if o.get('item'):
                        items.add(o['item'].split('::')[-1])
        callees = set(t['fd'].split('::')[-1] for bi, t in fn.calls())
        for need, where in (('version', callees), ('V3', ' '.join(items) + text), ('key_cert_sign', callees), ('digital_signature', callees), ('extended_key_usage', callees),
                            ('is_ca', callees), ('issuer', callees), ('subject', callees), ('RSA_OID', items), ('PRIME256V1_OID', items), ('SECP384R1_OID', items), ('SECP521R1_OID', items), ('ED25519_OID', items)):
            ok = need in where if isinstance(where, (set,)) else (need in where)
            ctx.ob('C06-D2', CCP, 'rule anchor ' + need, 'referenced by check_certificate_profile', ok, nontrivial=False)
        # RSA modulus size threshold: BigInt::bits compared with a constant >= 2048
        bits_ok = False
        for b in fn.B:
            for dst, rv in b['s']:
                if rv['k'] == 'bin' and rv['op'] in ('Lt', 'Ge', 'Gt', 'Le'):
                    ta, tb = T.op_term(fn, rv['a']), T.op_term(fn, rv['b'])
                    if 'BigInt::bits' in ta or 'BigInt::bits' in tb:
                        nums = [int(x) for x in re.findall(r'\b\d+\b', ta + ' ' + tb)]
                        if any(x >= 2048 for x in nums):
                            bits_ok = True
        ctx.ob('C06-D2', CCP, 'RSA modulus size', 'BigInt::bits compared with a constant >= 2048', bits_ok)
    # ---- D3 conforming certificates are not flagged: no Failure log on a path ending in Ok(())
    for name in (CCP, CEE):
        if not prog.has(name):
            continue
        fn = prog.fn(name)
        bad = None
        for s in logs.log_sites(prog, fn, consts):
            if s['kind'] == 'failure' and not verdict.log_followed_by_err(fn, s['bi']):
                bad = s
        ctx.ob('C06-D3', name, 'return Ok(())', 'no Failure log on the path', bad is None, detail='' if bad is None else 'failure log at %s can be followed by Ok' % loc(bad['span']))
        reach_ok = any(b['t']['k'] == 'ret' for b in fn.B)
        ctx.ob('C06-D3', name, 'return Ok(())', 'reachable', reach_ok, nontrivial=False)
    # ---- D6 decision-table agreement (every profile failure keeps its deciding conditions)
    import decisions
    for name, tn in ((CCP, 'C06_check_certificate_profile'), (CEE, 'C06_check_end_entity_certificate_profile')):
        if prog.has(name):
            decisions.compare(ctx, 'C06-D6', prog, T, prog.fn(name), consts, tn, k=4, bools=True)
    # D5 code/kind agreement for signingCredential.* codes
    verdict.code_kind_agreement(ctx, prog, 'C06-D5', code_filter=lambda c: c.startswith('signingCredential.'))
