"""Finite-domain decision of extracted conditions: the truth condition of a small predicate (DNF over comparison literals, from
terms.truth_dnf) is evaluated for every value of a one-byte / 16-bit variable.  This reasons about the extracted constraint set,
the code itself is never run."""
import re

LIT = re.compile(r'^(!?)(le|lt|ge|gt|eq|ne)\(([^,()]+),([^,()]+)\)$')


def _val(tok, var, x):
    tok = tok.strip()
    if tok == var:
        return x
    if re.fullmatch(r'-?\d+', tok):
        return int(tok)
    return None


def lit_holds(lit, var, x):
    """True/False, or None when the literal is not a comparison of `var` with constants"""
    m = LIT.match(lit)
    if m:
        neg, op, a, b = m.groups()
        va, vb = _val(a, var, x), _val(b, var, x)
        if va is None or vb is None:
            return None
        r = {'le': va <= vb, 'lt': va < vb, 'ge': va >= vb, 'gt': va > vb, 'eq': va == vb, 'ne': va != vb}[op]
        return (not r) if neg else r
    m = re.fullmatch(r'(!?)%s=(-?\d+)' % re.escape(var), lit)
    if m:
        r = x == int(m.group(2))
        return (not r) if m.group(1) else r
    m = re.fullmatch(r'%s∉\[([\d, -]*)\]' % re.escape(var), lit)
    if m:
        vals = [int(v) for v in m.group(1).split(',') if v.strip()]
        return x not in vals
    return None


def accepted_set(dnf, var, domain):
    """(set of values for which some clause holds, list of literals that could not be interpreted)"""
    unknown = set()
    acc = set()
    for x in domain:
        for clause in dnf:
            ok = True
            for lit in clause:
                h = lit_holds(lit, var, x)
                if h is None:
                    unknown.add(lit); ok = False; break
                if not h:
                    ok = False; break
            if ok:
                acc.add(x); break
    return acc, sorted(unknown)


def eval_arith(term, n):
    """value of an arithmetic term over ONE unknown: every `len(...)` sub-term (any argument) is taken as n.  Supports the MIR operator terms
    mul/add/sub/div (+ withoverflow(...).0 forms), div_ceil, next_multiple_of, integer literals.  Returns None when the term has another shape."""
    s = term.strip()
    s = re.sub(r'\.0$', '', s) if re.match(r'^(mul|add|sub)withoverflow\(', s) else s
    if re.fullmatch(r'\d+', s):
        return int(s)
    m = re.match(r'^([A-Za-z_:]+)\((.*)\)$', s)
    if not m:
        return None
    f, args = m.group(1), m.group(2)
    fshort = f.split('::')[-1]
    if fshort == 'len':
        return n
    parts, depth, cur = [], 0, ''
    for ch in args:
        if ch in '([{':
            depth += 1
        elif ch in ')]}':
            depth -= 1
        if ch == ',' and depth == 0:
            parts.append(cur); cur = ''
        else:
            cur += ch
    parts.append(cur)
    vals = [eval_arith(p, n) for p in parts]
    if any(v is None for v in vals) or len(vals) != 2:
        return None
    a, b = vals
    if fshort in ('mul', 'mulwithoverflow', 'saturating_mul', 'wrapping_mul'):
        return a * b
    if fshort in ('add', 'addwithoverflow', 'saturating_add', 'wrapping_add'):
        return a + b
    if fshort in ('sub', 'subwithoverflow', 'saturating_sub'):
        return max(a - b, 0)
    if fshort == 'div':
        return a // b if b else None
    if fshort == 'div_ceil':
        return -(-a // b) if b else None
    if fshort == 'next_multiple_of':
        return -(-a // b) * b if b else None
    return None
