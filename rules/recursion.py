"""Recursion-guard rules shared by C10 and C19."""
import re
from lib import CallGuard, loc, const_val
from terms import Terms
import oblig
from oblig import TermGuard

WRAPPER_TRAITS = re.compile(r' as (std::io::(Read|Seek|Write)|signer::(Signer|AsyncSigner)|c2pa_raw_crypto::RawSigner|http::(Sync|Async)HttpResolver|std::error::Error|std::clone::Clone|'
                            r'std::cmp::PartialEq|std::fmt::(Display|Debug)|settings::_::_serde::Serialize|resource_store::StoreResolver|jumbf::boxes::BMFFBox|crypto::cose::cose_signer::CoseSigner|'
                            r'crypto::time_stamp::provider::(Async)?TimeStampProvider|asset_io::\w+)>::')
# self-recursive functions driven by input nesting: name -> (kind, spec, reason)
#   depth:   spec = (param name, const item regex)  every recursive call passes param+1 and is dominated by the comparison with the constant
#   counter: spec = (param name, const item regex)  &mut counter incremented on entry and compared with the constant before any recursive call
#   visited: spec = regex of the set insert/contains call that must guard each recursive call
#   tabled:  reason only
TABLE = {
    'jumbf::boxes::BoxReader::read_super_box_impl': ('depth', ('depth', r'MAX_JUMB_DEPTH'), 'JUMBF superbox nesting'),
    'asset_handlers::riff_io::inject_c2pa': ('depth', ('depth', r'MAX_DEPTH'), 'RIFF LIST nesting'),
    'settings::merge_json_depth': ('depth', ('depth', r'MERGE_MAX_DEPTH'), 'settings JSON nesting'),
    'store::Store::ingredient_checks': ('depth', ('depth', r'MAX_INGREDIENT_DEPTH'), 'ingredient chain depth (plus visited set)'),
    'store::Store::ingredient_checks_async::{closure#0}': ('depth', ('depth', r'MAX_INGREDIENT_DEPTH'), 'ingredient chain depth (plus visited set)'),
    'store::Store::ingredient_checks_async': ('shell', None, 'async fn shell of the above'),
    'asset_handlers::bmff_io::build_bmff_tree': ('counter', ('recursion_level', r'MAX_BOX_DEPTH'), 'BMFF box nesting'),
    'store::Store::get_claim_referenced_manifests_impl': ('pathlen', ('claim_label_path', r'MAX_INGREDIENT_DEPTH'), 'ingredient path length + cycle check'),
    'store::Store::get_hash_binding_manifest_impl': ('visited', r'HashSet::<T, S, A>::insert$', 'update-manifest parent chain, visited set'),
    'store::Store::build_flat_ingredient_store::collect_flat': ('visited', r'HashSet::<T, S, A>::(insert|contains)$', 'flattening, visited/path sets (depth <= number of manifests; runs after the depth-limited validation)'),
    'crjson::fix_hash_encoding': ('tabled', None, 'walks a serde_json::Value produced by the SDK itself / parsed by serde_json (recursion limit 128)'),
    'assertions::data_hash::DataHash::pad_to_size': ('tabled', None, 'signing side: at most one re-entry (second pad), not input driven'),
    'crypto::cose::sign::pad_cose_sig': ('tabled', None, 'signing side: re-entry with a fixed target size, not input driven'),
}
INCR = re.compile(r'^(addwithoverflow\(%s,1\)(\.0)?|saturating_add\(%s,1\)|checked_add\(%s,1\).*|add\(%s,1\))$')


def check_sccs(ctx, rule, prog, T, only=None):
    sccs = prog.sccs()
    nreal = 0
    for comp in sccs:
        if all(n.startswith('jumbf::boxes::BMFFBox::') or ' as jumbf::boxes::BMFFBox>::' in n for n in comp):
            ctx.ob(rule, comp[0], 'recursive SCC (%d fns)' % len(comp), 'JUMBF box-tree serialisation: depth = nesting of the in-memory box tree (bounded on read paths by read_super_box MAX_JUMB_DEPTH)', True, nontrivial=False)
            continue
        if all(WRAPPER_TRAITS.search(n) for n in comp if '{closure' not in n) and all(n.startswith('<') or '{closure' in n for n in comp):
            ctx.ob(rule, comp[0], 'recursive SCC (%d fns)' % len(comp), 'delegation through a wrapper/trait object (depth = nesting of program-built objects)', True, nontrivial=False)
            continue
        if all(re.search(r'::_serde::|::serialization::', n) for n in comp):
            ctx.ob(rule, comp[0], 'recursive SCC (%d fns)' % len(comp), 'serde serialisation of SDK-built values', True, nontrivial=False)
            continue
        for name in comp:
            if only and not only(name):
                continue
            row = TABLE.get(name)
            fn = prog.fn(name)
            nreal += 1
            if row is None:
                ctx.ob(rule, name, 'recursive function', 'listed in the recursion table with its bound', False,
                       detail='untabled recursion: cycle %s' % ' -> '.join(x.split('::')[-1] for x in comp[:6]), site=loc(fn.d['span']))
                continue
            kind, spec, why = row
            ctx.analysed(name, len(list(fn.calls())))
            sites = [(bi, t) for bi, t in fn.calls() if any(x in comp for x in prog.callee_targets(t)) and t['fd'] != 'std::future::Future::poll']
            if kind in ('tabled', 'shell'):
                ctx.ob(rule, name, 'recursive function', 'tabled: ' + why, True, nontrivial=False)
                continue
            if kind == 'depth':
                pname, cpat = spec
                pidx = [k for k in range(1, fn.argc + 1) if fn.name_of(k) == pname]
                # async coroutine: the parameter is an upvar / moved local with that name
                for bi, t in sites:
                    terms = [T.op_term(fn, a) for a in t['args']]
                    inc = [x for x in terms if re.match(INCR.pattern % ((re.escape(pname),) * 4), x)]
                    ctx.ob(rule, name, 'recursive call', 'passes %s + 1' % pname, bool(inc),
                           detail='' if inc else 'recursive call at %s does not increment the depth parameter: args %s' % (loc(t['span']), [x[:40] for x in terms]), site=loc(t['span']))
                    g = TermGuard(T, r'^(lt|le|gt|ge)\((%s,%s|%s,%s)\)$' % (re.escape(pname), r'\w*' + cpat + r'\w*', r'\w*' + cpat + r'\w*', re.escape(pname)), 'any', name='%s compared with %s' % (pname, cpat))
                    ok = depth_cmp_dominates(ctx, fn, T, bi, pname, cpat)
                    ctx.ob(rule, name, 'recursive call', '%s compared with the constant %s on every path to the call (exceeding it returns)' % (pname, cpat), ok, site=loc(t['span']))
                const_finite(ctx, rule, prog, fn, cpat)
            elif kind == 'counter':
                pname, cpat = spec
                for bi, t in sites:
                    ok = depth_cmp_dominates(ctx, fn, T, bi, pname, cpat, deref=True)
                    ctx.ob(rule, name, 'recursive call', '*%s incremented and compared with %s before the call' % (pname, cpat), ok, site=loc(t['span']))
                const_finite(ctx, rule, prog, fn, cpat)
            elif kind == 'pathlen':
                pname, cpat = spec
                for bi, t in sites:
                    ok = depth_cmp_dominates(ctx, fn, T, bi, pname, cpat, length=True)
                    ctx.ob(rule, name, 'recursive call', '%s.len() compared with %s before the call' % (pname, cpat), ok, site=loc(t['span']))
                    g1 = CallGuard(r'(Vec|slice).*::contains$|core::slice::<impl \[T\]>::contains$', 'false', name='claim_label_path.contains(label) = false')
                    g2 = CallGuard(r'HashMap.*::contains_key$', 'false', name='manifest_map.contains_key(label) = false')
                    oblig.effect_requires(ctx, rule, fn, 'recursive call', lambda b2, blk, _bi=bi: b2 == _bi, [g1])
                const_finite(ctx, rule, prog, fn, cpat)
            elif kind == 'visited':
                for bi, t in sites:
                    ok, how = cycle_guard(fn, T, bi)
                    ctx.ob(rule, name, 'recursive call', 'dominated by a membership test on a set to which the current node was added before the call (on-path / pre-order set: a cycle is cut)', ok,
                           detail=how, site=loc(t['span']))
    return nreal


MEMBER = re.compile(r'::(contains|contains_key)$|Iterator::any$|::insert$')
ADDER = re.compile(r'::(insert|push|push_back)$')


def _recv(fn, T, t):
    try:
        return re.sub(r'^(iter|Iterator::\w+|IntoIterator::into_iter)\((.*)\)$', r'\2', T.op_term(fn, t['args'][0]))
    except Exception:
        return None


def cycle_guard(fn, T, site):
    """a recursive call is cycle-safe when some set S satisfies: (a) `S.insert(k) = true` dominates the call, or (b) `k not in S` dominates the call AND an add to S dominates the call.
    A set that is only filled after the recursive calls (post-order memo) does not cut a cycle."""
    tried = []
    for tb, t in fn.calls():
        if not MEMBER.search(t['fd']) or not t['args']:
            continue
        S = _recv(fn, T, t)
        if not S:
            continue
        is_insert = t['fd'].endswith('::insert')
        if is_insert and not re.search(r'HashSet|BTreeSet', t['fd']):
            continue
        g = CallGuard(r'.', 'true' if is_insert else 'false', argpred=lambda f, b2, t2, _tb=tb: b2 == _tb, name='%s %s' % (S, 'insert = true' if is_insert else 'membership = false'))
        try:
            dom = oblig._cheap_precheck(fn, {site}, [g])
        except Exception:
            dom = False
        if not dom:
            tried.append('%s: test does not dominate' % S)
            continue
        if is_insert:
            return True, 'insert into %s returns true before the call' % S
        adds = [ab for ab, t2 in fn.calls() if ADDER.search(t2['fd']) and t2['args'] and _recv(fn, T, t2) == S and fn.dominates(ab, site)]
        if adds:
            return True, 'not-in-%s test and %s.push/insert before the call' % (S, S)
        tried.append('%s: tested but the node is added only after the recursive calls (post-order memo)' % S)
    return False, '; '.join(tried)[:300] or 'no membership test found'


def const_finite(ctx, rule, prog, fn, cpat):
    for name, d in prog.bodies.items():
        if d['kind'] == 'const' and re.search(cpat + '$', name) and name.split('::')[0] == fn.name.split('::')[0]:
            b = d['blocks']
            v = const_val(b[0]['s'][0][1]['o']) if b and b[0]['s'] and 'c' in b[0]['s'][0][1].get('o', {}) else None
            ctx.ob(rule, name, 'depth constant', 'finite and <= 1000', bool(v and v[0] == 'const' and 0 < v[1] <= 1000), detail=str(v), nontrivial=False)


def depth_cmp_dominates(ctx, fn, T, call_bi, pname, cpat, deref=False, length=False):
    """every path from entry to call_bi passes a switch on a comparison between the depth value and the constant"""
    cmp_blocks = set()
    for bi, b in enumerate(fn.B):
        for dst, rv in b['s']:
            if rv['k'] == 'bin' and rv['op'] in ('Lt', 'Le', 'Gt', 'Ge'):
                ta, tb = T.op_term(fn, rv['a']), T.op_term(fn, rv['b'])
                both = ta + ' | ' + tb
                if re.search(cpat, both) and (pname in both):
                    if length and 'len' not in both:
                        continue
                    cmp_blocks.add(bi)
    if not cmp_blocks:
        return False
    reach = fn.reachable(0, avoid=cmp_blocks)
    return call_bi not in reach
