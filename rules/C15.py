"""C15 Embeddable signing returns bytes of exactly the placeholder size."""
import re
from lib import CallGuard, loc, classify_ret
from terms import Terms, ret_hits, fact_literals
import oblig
from oblig import TermGuard

EXPLANATION = ("Ordering-typestate rule over MIR: in Builder::sign_embeddable, on every path with placeholder_jumbf_len = Some(len) the relation between the signed JUMBF length "
               "and len must be '=' when get_composed_manifest is called: `len(jumbf) < len` followed by resize(len) establishes it, a longer result must reach an Err return, "
               "so the path set is enumerated and each path to the final composition must carry either a resize to len or an equality/ordering test that excludes '>' ; "
               "Builder::placeholder records placeholder_jumbf_len from the very buffer it composes (unconditional assignment, def-use); the data-hash flavour pads through "
               "Claim::update_data_hash -> pad_to_size (C14). Validity of the patched asset is not decided.")
RULE = "obligation = (function, composition site | assignment, length relation / def-use)"
SE = 'builder::Builder::sign_embeddable'
PH = 'builder::Builder::placeholder'


def run(ctx):
    prog = ctx.prog(('c2pa',))
    T = Terms(prog)
    if ctx.require(prog.has(SE), SE):
        fn = prog.fn(SE)
        ctx.analysed(SE, len(list(fn.calls())))
        comp = set(bi for bi, t in fn.calls() if t['fd'].endswith('Store::get_composed_manifest'))
        ctx.ob('C15-D1', SE, 'get_composed_manifest call', 'present', bool(comp))
        # explore with full tracking of the placeholder option and of comparisons with len
        from lib import Engine
        eng = Engine(fn, track_calls=lambda bi, t: bool(re.search(r'Vec::<T, A>::(len|resize)$', t['fd'])) or ('find_assertion' in t['fd'] and 'DataHash' in t['f']),
                     track_atom=lambda a: 'placeholder_jumbf_len' in T.atom_term(fn, a) or (a[0] == 'cmp'))
        resizes = set(bi for bi, t in fn.calls() if re.search(r'Vec::<T, A>::resize$', t['fd']))

        def mon(bi, b, env, facts, ms):
            if bi in resizes:
                ms = 1
            labels = []
            if bi in comp:
                labels = [('compose', ms)]
            return ms, labels
        mon.init = 0
        hits = eng.explore(mon)
        ctx.states += eng.states
        bad = None
        npaths = 0
        for (lab, resized), bi, facts, env, key in hits:
            L = fact_literals(T, fn, facts)
            some = any(re.match(r'^(ok\(.*placeholder_jumbf_len.*\)|discr\(.*placeholder_jumbf_len.*\)=1)$', l) for l in L)
            if not some:
                continue
            npaths += 1
            gt_excluded = any((re.match(r'^(!gt|le|eq|!ne)\((Vec::len|len)\(', l) and 'placeholder_jumbf_len' in l) or re.match(r'^(!lt|ge|eq)\(.*placeholder.*,(Vec::len|len)\(', l) for l in L)
            lt_handled = resized or any(re.match(r'^(!lt|ge|eq)\((Vec::len|len)\(', l) for l in L)
            # a placeholder without a data-hash assertion (BMFF Merkle flavour) is allowed to grow: the caller reserves room for the leaves
            not_datahash = any(a[0] == 'ok' and a[1][0] == 'call' and v == 0 and 'find_assertion' in fn.B[a[1][1]]['t']['fd'] and 'data_hash::DataHash' in fn.B[a[1][1]]['t']['f'] for a, v in facts.items())
            if not_datahash:
                gt_excluded = True
            if not (gt_excluded and lt_handled) and not (resized and gt_excluded):
                if not gt_excluded:
                    bad = ('>', sorted(L), eng.path_of(key))
                elif not lt_handled:
                    bad = ('<', sorted(L), eng.path_of(key))
        ctx.floor('placeholder-mode paths to the composition in sign_embeddable', npaths, 1, rule='C15-D1')
        ctx.ob('C15-D1', SE, 'compose the signed manifest (placeholder mode)', 'len(signed JUMBF) == placeholder length on every data-hash path ("<" padded, ">" rejected)', bad is None,
               detail='' if bad is None else 'a path reaches get_composed_manifest with the relation "%s" still possible: only facts %s' % (bad[0], bad[1][:6]),
               site=loc(fn.d['span']), witness=None if bad is None else {'blocks': bad[2][:60]})
        # resize target is the placeholder length
        for bi in resizes:
            term = T.op_term(fn, fn.B[bi]['t']['args'][1])
            ctx.ob('C15-D1', SE, 'jumbf.resize(n, 0)', 'n = the recorded placeholder length', 'placeholder_jumbf_len' in term or term == 'len', detail=term[:80], nontrivial=False)
    if ctx.require(prog.has(PH), PH):
        fn = prog.fn(PH)
        ctx.analysed(PH, len(list(fn.calls())))
        writes = []
        for bi, b in enumerate(fn.B):
            for dst, rv in b['s']:
                if dst['p'] and 'placeholder_jumbf_len' in T.field_names(fn, dst['l'], dst['p']):
                    writes.append((bi, rv))
        other = [t['fd'] for bi, t in fn.calls() if re.search(r'get_or_insert|Option::<T>::(insert|replace|or|xor)', t['fd']) and 'placeholder_jumbf_len' in T.call_term(fn, bi)]
        ctx.ob('C15-D2', PH, 'self.placeholder_jumbf_len = Some(..)', 'one unconditional assignment (no get_or_insert / conditional update)', len(writes) == 1 and not other, detail='%d writes; %s' % (len(writes), other))
        for bi, rv in writes:
            term = T.op_term(fn, rv['ops'][0]) if rv['k'] == 'agg' and rv.get('ops') else ''
            if not term and rv['k'] == 'use' and 'l' in rv['o']:
                for o in fn.origins(rv['o']):
                    if o[0] == 'agg':
                        rv2 = fn.B[o[1]]['s'][o[2]][1]
                        if rv2.get('ops'):
                            term = T.op_term(fn, rv2['ops'][0])
            comp = [T.call_term(fn, b2) for b2, t2 in fn.calls() if t2['fd'].endswith('Store::get_composed_manifest')]
            same = any(re.search(r'Vec::len\((.*)\)', term) and re.search(r'Vec::len\((.*)\)', term).group(1) in c for c in comp)
            ctx.ob('C15-D2', PH, 'recorded length', 'length of the same jumbf buffer that is composed and returned', 'len' in term and same, detail='recorded %s ; composed %s' % (term[:80], [c[:80] for c in comp]))
        # the assignment lies on every path to the composed return
        wb = set(bi for bi, _ in writes)
        comp_b = set(bi for bi, t in fn.calls() if t['fd'].endswith('Store::get_composed_manifest'))
        if wb and comp_b:
            oblig.must_pass_through(ctx, 'C15-D2', fn, lambda b, blk, _c=comp_b: b in _c, lambda b, blk, _w=wb: b in _w, 'compose the placeholder', 'record placeholder_jumbf_len')
    # data-hash flavour: get_data_hashed_embeddable_manifest -> prep_embeddable_store -> Claim::update_data_hash (C14-D3 pads to the placeholder size)
    callers = [n for n in prog.fns() if any(t['fd'].endswith('Claim::update_data_hash') for bi, t in prog.fn(n).calls())]
    ctx.floor('callers of Claim::update_data_hash', len(callers), 1, rule='C15-D1')
    import discipline
    for cname in callers:
        fnc = prog.fn(cname)
        for bi, t in fnc.calls():
            if t['fd'].endswith('Claim::update_data_hash'):
                kinds = sorted(set(c[0] for c in discipline.consumers(fnc, bi)))
                ctx.ob('C15-D1', cname, 'Claim::update_data_hash(..)', 'its size error is propagated', kinds == ['propagate'], detail=str(kinds), site=loc(t['span']))
    for name in prog.fns():
        if re.match(r'^store::Store::get_data_hashed_embeddable_manifest(_async::\{closure#0\})?$', name):
            reach, _ = prog.reach_from([name])
            ctx.ob('C15-D1', name, 'reaches Claim::update_data_hash', 'yes (placeholder assertion is re-padded before signing)', any(c in reach for c in callers))
