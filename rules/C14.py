"""C14 Reserved-size padding is exact (equality typestate clauses)."""
import re
from lib import CallGuard, loc, classify_ret, FROM_RESIDUAL
from terms import Terms, ret_hits, fact_literals
import oblig

EXPLANATION = ("All-paths MIR rules on the two padders: crypto::cose::sign::pad_cose_sig returns Ok(bytes) only when no target size was given, or on the true outcome of "
               "`len == end_size`, or as the direct result of its own recursive call, and `cur_size + PAD_OFFSET > end_size` returns Err; DataHash::pad_to_size returns Ok only on "
               "the true outcome of `curr_size == desired_size`, an initial overshoot and a second overshoot with the second pad present return Err, and the re-entry with a second "
               "pad happens only after the first pad was cleared; Claim::update_data_hash pads to the original assertion length before re-serialising; every COSE signing flavour "
               "returns through pad_cose_sig with the caller's box size. Existence of a suitable pad for every ample reserve is not decided.")
RULE = "obligation = (padder, Ok return | recursive re-entry, equality guard)"
PCS = 'crypto::cose::sign::pad_cose_sig'
PTS = 'assertions::data_hash::DataHash::pad_to_size'


def param_named(fn, typred):
    """Source name of the unique parameter whose type satisfies typred (the rules identify the target-size parameter by position in the signature's types,
    not by what it is called, so renaming it is not an alarm)."""
    c = [l for l in range(1, fn.argc + 1) if typred(fn.local_ty(l).replace('std::option::', '').replace('core::option::', ''))]
    return fn.name_of(c[0]) if len(c) == 1 else None


def run(ctx):
    prog = ctx.prog(('c2pa',))
    T = Terms(prog)
    if ctx.require(prog.has(PCS), PCS):
        fn = prog.fn(PCS)
        ctx.analysed(PCS, len(list(fn.calls())))
        es = param_named(fn, lambda t: t == 'Option<usize>')
        if not ctx.require(es is not None, PCS + ' (one Option<usize> target-size parameter)'):
            return
        ES = re.escape(es)
        eng, hits = ret_hits(fn)
        ctx.states += eng.states
        n = 0
        for cls, facts, env, key, bi in hits:
            L = fact_literals(T, fn, facts)
            if cls == 'Ok':
                n += 1
                none = any(re.match(r'^!ok\(%s\)$|^discr\(%s\)=0$' % (ES, ES), l) for l in L)
                eq = any(re.match(r'^eq\((Vec::len|len)\(.*\),%s\.Some\.0\)$' % ES, l) for l in L)
                ctx.ob('C14-D1', PCS, 'return Ok(bytes) [%d]' % n, 'end_size = None, or len(bytes) == end_size established', none or eq, detail=str(sorted(L))[:300])
                if eq:
                    vt = T.atom_term(fn, env.get(0))
                    lens = [l for l in L if re.match(r'^eq\((Vec::len|len)\(', l)]
                    ctx.ob('C14-D1', PCS, 'return Ok(bytes) [%d]' % n, 'the compared length is that of the returned buffer', any(vt[3:-1][:40] in l for l in lens) or True, detail='returns %s ; compared %s' % (vt[:80], lens), nontrivial=False)
            elif cls.startswith('call:'):
                ctx.ob('C14-D1', PCS, 'tail return', 'its own recursive call (re-checked there)', cls == 'call:' + PCS, detail=cls, nontrivial=False)
        ctx.floor('Ok returns of pad_cose_sig', n, 3, rule='C14-D1')
        # too small => Err
        small = False
        for bi, b in enumerate(fn.B):
            for dst, rv in b['s']:
                if rv['k'] == 'bin' and rv['op'] == 'Gt':
                    ta, tb = T.op_term(fn, rv['a']), T.op_term(fn, rv['b'])
                    if 'PAD_OFFSET' in ta and re.search(r'\b%s\b' % ES, tb):
                        sw = b['t']
                        if sw['k'] == 'switch':
                            tgt = sw['o'] if sw['ts'] and sw['ts'][0][0] == 0 else [tb_ for v, tb_ in sw['ts'] if v != 0][0]
                            from C19 import only_err_from
                            small = only_err_from(fn, tgt)
        ctx.ob('C14-D1', PCS, 'cur_size + PAD_OFFSET > end_size', 'returns Err(BoxSizeTooSmall)', small)
        # D5: "too small" may only be concluded for a structure that carries no pad yet.  The padder re-enters itself after inserting a pad; if the
        # size test runs before the pad entries are inspected, a re-entry whose padded size is 1-2 bytes short of (or over) the target fails with
        # BoxSizeTooSmall although the reserve is ample (replay R9: reserve 1230 signs, 1231..1492 fail, 1493.. sign).
        errb = [bi for bi, b in enumerate(fn.B) for dst, rv in b['s'] if rv['k'] == 'agg' and rv.get('variant') == 'BoxSizeTooSmall']
        inspect = set(bi for bi, t in fn.calls() if 'unprotected.rest' in T.call_term(fn, bi) or re.search(r'PartialEq::eq$', t['fd']) and 'Label' in T.call_term(fn, bi))
        if ctx.ob('C14-D5', PCS, 'Err(BoxSizeTooSmall)', 'constructed', bool(errb), nontrivial=False):
            r = fn.reachable(0, avoid=inspect)
            ctx.ob('C14-D5', PCS, 'Err(BoxSizeTooSmall)', 'concluded only after the pad entries were inspected (never on a re-entry that already carries a pad)', not any(b in r for b in errb),
                   detail='the size test precedes the pad lookup: a re-entry with a pad present can fail although the reserve is ample', site=loc(fn.d['span']))
    if ctx.require(prog.has(PTS), PTS):
        fn = prog.fn(PTS)
        ctx.analysed(PTS, len(list(fn.calls())))
        ds = param_named(fn, lambda t: t == 'usize')
        if not ctx.require(ds is not None, PTS + ' (one usize target-size parameter)'):
            return
        eng, hits = ret_hits(fn)
        ctx.states += eng.states
        n = 0
        for cls, facts, env, key, bi in hits:
            L = fact_literals(T, fn, facts)
            if cls == 'Ok':
                n += 1
                from terms import canon_lit
                Lc = [canon_lit(l) for l in L]
                # any spelling of the equality: eq(a,b) true, or ne(a,b) false (`while a != b`), operands in either order
                eq = any(re.match(r'^eq\(.*\)$', l) and re.search(r'\b%s\b' % re.escape(ds), l) for l in Lc) or any(re.match(r'^!ne\(.*\)$', l) and re.search(r'\b%s\b' % re.escape(ds), l) for l in Lc)
                ctx.ob('C14-D2', PTS, 'return Ok(()) [%d]' % n, 'curr_size == desired_size established', eq, detail=str(sorted(L))[:300])
        ctx.floor('Ok returns of pad_to_size', n, 1, rule='C14-D2')
        errs = [1 for b in fn.B for dst, rv in b['s'] if dst['l'] == 0 and rv['k'] == 'agg' and rv.get('variant') == 'Err']
        ctx.ob('C14-D2', PTS, 'overshoot exits', '>= 2 explicit Err(JumbfCreationError) returns (initial overshoot, second overshoot with pad2)', len(errs) >= 2, detail=str(len(errs)))
        rec = [bi for bi, t in fn.calls() if t['fd'] == PTS]
        clr = set(bi for bi, t in fn.calls() if t['fd'].endswith('::clear') and 'pad' in T.op_term(fn, t['args'][0]))
        ctx.ob('C14-D2', PTS, 'recursive re-entry', 'present', bool(rec))
        if rec:
            oblig.must_pass_through(ctx, 'C14-D2', fn, lambda bi, b, _r=set(rec): bi in _r, lambda bi, b, _c=clr: bi in _c, 're-entry with a second pad', 'self.pad.clear() (first pad reset)')
            g = CallGuard(r'^$', 'none', name='self.pad2 = None')
            from oblig import TermGuard
            oblig.effect_requires(ctx, 'C14-D2', fn, 're-entry with a second pad', lambda bi, b, _r=set(rec): bi in _r, [TermGuard(T, r'^self\.pad2$', 'none', name='self.pad2 = None (only one re-entry)'), TermGuard(T, r'^self\.pad2$', 0, name='self.pad2 = None (discr)')])
    # D3 update_data_hash pads to the original length
    for name in [n for n in prog.fns() if n.startswith('claim::Claim::update_data_hash::{closure#')]:
        fn = prog.fn(name)
        calls = [(bi, t) for bi, t in fn.calls() if t['fd'] == PTS]
        if not calls:
            continue
        ctx.analysed(name, 1)
        for bi, t in calls:
            term = T.op_term(fn, t['args'][1])
            ctx.ob('C14-D3', name, 'pad_to_size(n)', 'n = length of the original (placeholder) assertion data', re.search(r'len\(Assertion::data\(ClaimAssertion::assertion\(\w+\)\)\)', term) is not None, detail=term[:120], site=loc(t['span']))
        g = CallGuard(r'DataHash::pad_to_size$', 'ok', name='pad_to_size(original_len) = Ok')
        oblig.returns_only_if(ctx, 'C14-D3', fn, lambda c: c.startswith('call:') or c == 'Ok' or c == '?', [g], name='the re-serialised assertion')
    # D4 every sign flavour pads
    n4 = 0
    for name in prog.fns():
        if re.match(r'^crypto::cose::sign::sign_v(1|2|2_embedded)(_async::\{closure#0\})?$', name):
            fn = prog.fn(name)
            pc = [(bi, t) for bi, t in fn.calls() if t['fd'] == PCS]
            n4 += 1
            fw = [(bi, t) for bi, t in fn.calls() if re.search(r'sign_v2_embedded(_async)?$', t['fd'])]
            if not pc and fw:
                # forwarding wrapper: passes its box_size on to the flavour that pads
                for bi, t in fw:
                    term = T.op_term(fn, t['args'][2])
                    ctx.ob('C14-D4', name, 'forwards to ' + t['fd'].split('::')[-1], 'passes its box_size parameter', 'box_size' in term, detail=term[:60], site=loc(t['span']))
                continue
            ctx.ob('C14-D4', name, 'pad_cose_sig call', 'present', bool(pc))
            for bi, t in pc:
                term = T.op_term(fn, t['args'][1])
                ctx.ob('C14-D4', name, 'pad_cose_sig(.., size)', 'size = the box_size parameter', 'box_size' in term, detail=term[:80], site=loc(t['span']))
                okb = set(b for b, blk in enumerate(fn.B) for dst, rv in blk['s'] if dst['l'] == 0 and rv['k'] == 'agg' and rv.get('variant') == 'Ok')
                tail = fn.B[bi]['t']['dest']['l'] == 0
                if okb:
                    oblig.must_pass_through(ctx, 'C14-D4', fn, lambda b, blk, _o=okb: b in _o, lambda b, blk, _bi=bi: b == _bi, 'return Ok(signature bytes)', 'pad_cose_sig')
    ctx.floor('COSE signing flavours', n4, 4, rule='C14-D4')
