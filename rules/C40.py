"""C40 Synchronous and asynchronous APIs behave identically (sibling agreement, E5)."""
import re
import collections
from lib import loc, const_val
from terms import Terms, TRANSPARENT, short2, _join

EXPLANATION = ("Sibling-agreement rule over MIR: every function generated in both flavours (X and X_async, 80 pairs) is paired by name; for each pair the multiset of "
               "(normalised resolved callee, shallow argument shapes) of all non-plumbing calls is compared after normalising the flavour markers (_async suffix, "
               ".await plumbing, Async/Sync trait prefixes, signer()/async_signer(), resolver()/resolver_async()). A call present in one flavour only, or the same call "
               "with a different argument source (another variable, another settings field), is reported unless tabled with a reason. Decides that the two flavours "
               "perform the same operations on the same data, not equality of outcomes.")
RULE = "obligation = one sync/async pair; non-trivial = the pair contains at least one flavour-specific (`if _sync`) region, i.e. the raw callee multisets differ"

PLUMB = re.compile(r'^std::future::(IntoFuture::into_future|Future::poll|get_context)$|^std::pin::Pin::<Ptr>::(new_unchecked|new)$|^std::boxed::Box::<T>::pin$|'
                   r'^std::ops::(Try::branch|FromResidual::from_residual)$|^std::ops::Deref|^std::convert::(Into::into|From::from|AsRef::as_ref)$|^std::clone::Clone::clone$|'
                   r'^std::fmt::|^core::fmt::|^std::fmt::rt::|^alloc::fmt::format|^std::hint::must_use$|^std::mem::drop$|^std::borrow::')
# accepted differences: (sync fn, normalised callee short name) -> reason
TABLED = {
    ('ingredient::Ingredient::from_stream', '*'): 'hand-written deprecated pair: the async flavour delegates to from_stream_async_with_settings, which mirrors add_stream_internal (cancellation handling of both is reported under C23)',
    ('store::Store::sign_claim', 'cose_sign'): 'sync passes &adjusted_settings, async passes settings; cose_sign reads only settings.trust.* which the adjustment does not touch (field-use side condition checked below)',
}


def nrm(s):
    s = s.replace('_async', '').replace('.Ready.0', '')
    s = re.sub(r'::\{closure#0\}', '', s)
    s = re.sub(r'\b(Async|Sync)(?=[A-Z])', '', s)
    s = s.replace('async_signer', 'signer').replace('resolver_async', 'resolver')
    return s


def shallow(fn, T, op, depth=0):
    if 'c' in op:
        return T.op_term(fn, op)[:60]
    l = op['l']
    proj = [p for p in op['p'] if p != '*']
    base = shallow_local(fn, T, l, depth)
    if proj:
        names = T.field_names(fn, l, op['p'])
        return _join(base, names)
    return base


def shallow_local(fn, T, l, depth):
    if depth > 40:
        return '_'
    ds = [d for d in fn.defs.get(l, ()) if d[0] in ('stmt', 'call')]
    if l in fn.varnames and (len(ds) != 1 or 1 <= l <= fn.argc):
        return fn.varnames[l]
    if 1 <= l <= fn.argc and not ds:
        return fn.varnames.get(l, 'arg')
    if len(ds) != 1:
        return fn.varnames.get(l, '{%d defs}' % len(ds))
    d = ds[0]
    if d[0] == 'call':
        t = d[2]
        if (t['fd'] in TRANSPARENT or PLUMB.search(t['fd'])) and t['args']:
            return shallow(fn, T, t['args'][0], depth + 1)
        return short2(t.get('r') or t['fd']) + '()'
    rv = d[3]
    k = rv['k']
    if k in ('use', 'cast'):
        return shallow(fn, T, rv['o'], depth + 1)
    if k in ('ref', 'rawptr'):
        return shallow(fn, T, {'l': rv['pl']['l'], 'p': rv['pl']['p']}, depth + 1)
    if k == 'agg':
        if 'closure' in rv:
            return 'closure'
        if 'variant' in rv:
            return rv['variant'] + '(..)'
        return 'tuple'
    return k


def run(ctx):
    prog = ctx.prog(('c2pa',))
    T = Terms(prog)
    pairs = []
    for n in prog.fns():
        if n.endswith('_async::{closure#0}'):
            base = n[:-len('_async::{closure#0}')]
            shell = prog.bodies.get(n[:-len('::{closure#0}')])
            is_async_shell = bool(shell) and any(rv['k'] == 'agg' and rv.get('closure') == n and dst['l'] == 0 for b in shell['blocks'] for dst, rv in b['s'])
            if prog.has(base) and prog.bodies[base]['kind'] in ('fn', 'assoc') and is_async_shell:
                pairs.append((base, n))
    # hand-written twins: `impl AsyncTrait for AsyncX` next to `impl Trait for X` (sync name derived by dropping Async/_async or Async->Sync).  Their
    # bodies are written by hand, so only a coarse fingerprint is compared: the multiset of callee method names (last path segment, `_async` dropped).
    HAND_TABLED = {
        '<callback_signer::CallbackSigner as signer::Signer>::certs': 'the sync flavour parses the PEM chain, the async flavour returns the stored chain',
        "<cose_sign::SignerWrapper<'_> as crypto::cose::cose_signer::CoseSigner>::cert_chain": 'error conversion written as map_err(closure) in one flavour and inline in the other',
        '<http::SyncGenericResolver as http::SyncHttpResolver>::http_resolve': 'the async flavour buffers the body (reqwest), the sync flavour hands out the reader',
    }
    ntw = 0
    for n in sorted(prog.fns()):
        if n.endswith('::{closure#0}') and ' as ' in n and 'Async' in n and n.count('{closure') == 1 and not n.endswith('_async::{closure#0}') or (n.endswith('http_resolve_async::{closure#0}') and ' as ' in n and n.count('{closure') == 1):
            shell = n[:-len('::{closure#0}')]
            for cand in (shell.replace('Async', '').replace('_async', ''), shell.replace('Async', 'Sync').replace('_async', '')):
                if cand != shell and prog.has(cand):
                    ntw += 1
                    def seg(fn_):
                        c_ = collections.Counter()
                        for bi_, t_ in fn_.calls():
                            if PLUMB.search(t_['fd']):
                                continue
                            c_[re.sub(r'_async$', '', t_['fd'].split('::')[-1])] += 1
                        return c_
                    a_, b_ = seg(prog.fn(cand)), seg(prog.fn(n))
                    same = not (a_ - b_) and not (b_ - a_)
                    ctx.analysed(cand, len(list(prog.fn(cand).calls())))
                    if not same and cand in HAND_TABLED:
                        ctx.ob('C40-D1', cand, 'hand-written sync/async twin', 'tabled difference', True, detail='tabled: ' + HAND_TABLED[cand], nontrivial=False)
                    else:
                        ctx.ob('C40-D1', cand, 'hand-written sync/async twin', 'same callee methods in both flavours', same,
                               detail='' if same else 'only sync: %s ; only async: %s' % (dict(a_ - b_), dict(b_ - a_)), site=loc(prog.fn(cand).d['span']))
                    break
    # the twin impls override the same set of trait methods (a method left to the trait default in one flavour behaves differently)
    imps = {}
    for im in prog.impls:
        imps[(im['trait'], re.sub(r"<'_[^>]*>", '', im['self_ty']))] = set(m[0].split('::')[-1] for m in im['methods'])
    nimp = 0
    for (tr, ty), ms in sorted(imps.items()):
        if 'Async' not in tr or 'Async' not in ty:
            continue
        for cand in ((tr.replace('Async', ''), ty.replace('Async', '')), (tr.replace('Async', 'Sync'), ty.replace('Async', 'Sync'))):
            if cand in imps:
                nimp += 1
                sm = imps[cand]
                norm = lambda s_: set(re.sub(r'_async$', '', x) for x in s_)
                ctx.ob('C40-D1', '%s for %s' % (cand[0].split('::')[-1], cand[1].split('::')[-1]), 'methods overridden by the sync and the async impl', 'the same set', norm(sm) == norm(ms),
                       detail='only sync: %s ; only async: %s' % (sorted(norm(sm) - norm(ms)), sorted(norm(ms) - norm(sm))))
                break
    ctx.floor('sync/async impl pairs of the same wrapper type', nimp, 2, rule='C40-D1')
    ctx.floor('hand-written sync/async trait twins', ntw, 10, rule='C40-D1')
    ctx.floor('sync/async twin pairs', len(pairs), 75, rule='C40-D1')
    for sname, aname in sorted(pairs):
        sf, af = prog.fn(sname), prog.fn(aname)
        ctx.analysed(sname, len(list(sf.calls())))
        ctx.analysed(aname, len(list(af.calls())))

        def calls(fn):
            c = collections.Counter()
            raw = collections.Counter()
            for bi, t in fn.calls():
                if PLUMB.search(t['fd']):
                    continue
                mx = t['span'].get('mx') or []
                if any(m in ('format', 'format_args', 'log::info', 'log::debug', 'log::warn', 'log::error', 'debug', 'info', 'warn', 'error', 'trace') for m in mx) and 'log_item' not in ' '.join(mx):
                    continue
                callee = nrm(short2(t.get('r') or t['fd']) if (t['fd'].startswith('std::') or t['fd'].startswith('core::')) else nrm(t['fd']))
                raw[t['fd']] += 1
                args = tuple(nrm(shallow(fn, T, a)) for a in t['args'])
                c[(callee, args)] += 1
            return c, raw
        cs, rs = calls(sf)
        ca, ra = calls(af)
        d1, d2 = cs - ca, ca - cs
        nontriv = rs != ra
        if not d1 and not d2:
            ctx.ob('C40-D1', sname, 'sync vs async flavour', 'same operations on the same arguments', True, nontrivial=nontriv)
            continue
        # group by callee
        by = collections.defaultdict(lambda: [[], []])
        for (c, a), n in d1.items():
            by[c][0].append(a)
        for (c, a), n in d2.items():
            by[c][1].append(a)
        for c, (sa, aa) in sorted(by.items()):
            short = c.split('::')[-1]
            why = TABLED.get((sname, short)) or TABLED.get((sname, '*'))
            if why:
                ctx.ob('C40-D1', sname, 'call ' + short, 'tabled difference', True, detail='tabled: %s ; sync %s / async %s' % (why, sa[:2], aa[:2]))
                continue
            ctx.ob('C40-D1', sname, 'call ' + short, 'same arguments in both flavours', False,
                   detail='sync flavour: %s ; async flavour: %s' % ([list(x) for x in sa[:3]] or 'absent', [list(x) for x in aa[:3]] or 'absent'),
                   site=loc(sf.d['span']))
    # side condition of the tabled sign_claim difference: cose_sign only reads settings.trust.*
    for name in ('cose_sign::cose_sign', 'cose_sign::cose_sign_async::{closure#0}'):
        if prog.has(name):
            fn = prog.fn(name)
            used = set()
            for b in fn.B:
                ops = []
                for dst, rv in b['s']:
                    ops += [o for o in __import__('lib').rv_operands(rv) if 'l' in o]
                    if 'pl' in rv:
                        ops.append({'l': rv['pl']['l'], 'p': rv['pl']['p']})
                if b['t']['k'] == 'call':
                    ops += [a for a in b['t']['args'] if 'l' in a]
                for o in ops:
                    tt = T.op_term(fn, o)
                    m = re.match(r'^settings\.(\w+)', tt)
                    if m:
                        used.add(m.group(1))
            whole = [T.call_term(fn, bi) for bi, t in fn.calls() if any(('l' in a) and T.op_term(fn, a) == 'settings' for a in t['args'])]
            ctx.ob('C40-D1', name, 'fields of `settings` read', 'subset of {trust} and settings not passed on whole except to signing_cert_valid', used <= {'trust'} and all('signing_cert_valid' in w for w in whole),
                   detail='fields %s ; passed whole to %s' % (sorted(used), [w.split('(')[0] for w in whole]))
