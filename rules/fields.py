"""Field-access inventory over MIR places: which (struct, field) pairs a function reads or writes."""
import re
from lib import ty_head, rv_operands

DERIVED = re.compile(r' as (std::clone::Clone|std::fmt::Debug|std::cmp::\w+|std::default::Default|std::hash::Hash|[\w:]*serde::\w+(<[^>]*>)?|[\w:]*_serde::[\w:]+(<[^>]*>)?|schemars::JsonSchema)>::|::_::<impl |__FieldVisitor|__Visitor')


def is_derived(name):
    return DERIVED.search(name) is not None


def _strip(t):
    if t is None:
        return None
    t = t.strip()
    while True:
        m = re.match(r"^&('\S+ )?(mut )?", t)
        if m and m.end() > 0 and t.startswith('&'):
            t = t[m.end():]
            continue
        m = re.match(r'^std::boxed::Box<(.*?)(, std::alloc::Global)?>$', t)
        if m:
            t = m.group(1); continue
        m = re.match(r'^std::sync::Arc<(.*?)(, std::alloc::Global)?>$', t)
        if m:
            t = m.group(1); continue
        return t


def _payload(t, variant):
    """type of the single payload of Option<T>::Some / Result<T,E>::Ok|Err"""
    if t is None or '<' not in t:
        return None
    inner = t[t.index('<') + 1:t.rindex('>')]
    parts, depth, cur = [], 0, ''
    for ch in inner:
        if ch in '<([':
            depth += 1
        elif ch in '>)]':
            depth -= 1
        if ch == ',' and depth == 0:
            parts.append(cur.strip()); cur = ''
        else:
            cur += ch
    parts.append(cur.strip())
    if variant in ('Some', 'Ok'):
        return parts[0]
    if variant == 'Err' and len(parts) > 1:
        return parts[1]
    return None


def walk(prog, fn, place):
    """yield (adt_name, field_name) for every struct-field step of a place"""
    cur = _strip(fn.local_ty(place['l']))
    pend_variant = None
    for p in place.get('p') or []:
        if p == '*':
            cur = _strip(cur)
            continue
        if p.startswith('as '):
            pend_variant = p[3:].split('#')[0]
            continue
        if p.startswith('.'):
            i = int(p[1:])
            if pend_variant is not None:
                cur = _strip(_payload(cur, pend_variant)) if i == 0 else None
                pend_variant = None
                continue
            if cur is None:
                continue
            adt = prog.adts.get(ty_head(cur))
            if adt and len(adt['variants']) == 1 and i < len(adt['variants'][0]['fields']):
                f = adt['variants'][0]['fields'][i]
                yield adt['name'], f[0]
                cur = _strip(f[1])
            else:
                cur = None
        else:
            cur = None


def accesses(prog, fn):
    """(reads, writes): sets of (adt, field). A destination place counts as a write of its last field and a read of the prefix."""
    reads, writes = set(), set()

    def rd(pl):
        if isinstance(pl, dict) and 'l' in pl and 'c' not in pl:
            for x in walk(prog, fn, pl):
                reads.add(x)
    for b in fn.B:
        for dst, rv in b['s']:
            steps = list(walk(prog, fn, dst))
            if steps:
                for x in steps[:-1]:
                    reads.add(x)
                writes.add(steps[-1])
            for o in rv_operands(rv):
                rd(o)
            if isinstance(rv.get('pl'), dict):
                rd(rv['pl'])
                if rv['k'] in ('ref', 'rawptr') and rv.get('mut'):
                    st2 = list(walk(prog, fn, rv['pl']))
                    if st2:
                        writes.add(st2[-1])   # &mut place.field handed to a mutator
        t = b['t']
        if t['k'] == 'call':
            for a in t['args']:
                rd(a)
        elif t['k'] == 'switch':
            rd(t['d'])
    return reads, writes


def struct_literal_fields(prog, fn, adt_name):
    """fields initialised by an aggregate of the struct in fn (all of them for a literal without ..base)"""
    out = set()
    adt = prog.adts.get(adt_name)
    for b in fn.B:
        for dst, rv in b['s']:
            if rv['k'] == 'agg' and (rv.get('adt') == adt_name or str(rv.get('ty', '')).startswith(adt_name)):
                if adt:
                    for f in adt['variants'][0]['fields']:
                        out.add(f[0])
    return out
