"""R-LOGGED: the repo's stated belief `.ok(); // Ignore errors here - they have already been logged` made checkable.
A callee whose Result is discarded and that takes a &mut StatusTracker must log a failure on every path to an Err exit."""
import re
from lib import FROM_RESIDUAL, TRY_BRANCH, loc
import logs

FAIL_LOG = re.compile(r'status_tracker::log_item::LogItem::(failure|failure_no_throw|failure_as_err)$')
ANY_LOG = re.compile(r'status_tracker::log_item::LogItem::(failure|failure_no_throw|failure_as_err|informational|success)$')


def closure_logs(prog, cname, depth=0):
    if cname not in prog.bodies or depth > 3:
        return False
    f = prog.fn(cname)
    for bi, t in f.calls():
        if FAIL_LOG.search(t['fd']):
            return True
        for a in t['args']:
            if 'l' in a and f.locals[a['l']].get('closure') and closure_logs(prog, f.locals[a['l']]['closure'], depth + 1):
                return True
    return False


def takes_tracker(fn):
    return any('status_tracker::StatusTracker' in fn.local_ty(k) for k in range(1, fn.argc + 1))


def unlogged_err_exits(prog, fn, depth=0, _memo=None, log_re=FAIL_LOG):
    """list of (block, description, site) for Err exits not preceded by a failure log"""
    if _memo is None:
        _memo = {}
    if fn.name in _memo:
        return _memo[fn.name]
    _memo[fn.name] = []          # recursion guard: assume ok while computing
    B = fn.B
    preds = fn.preds
    res = []
    for i, b in enumerate(B):
        t = b['t']
        if t['k'] == 'call' and t['fd'] == FROM_RESIDUAL and t['dest']['l'] == 0 and not t['dest']['p']:
            # find the Try::branch feeding this residual
            j = i
            branch = None
            for _ in range(8):
                ps = preds[j]
                if len(ps) != 1:
                    break
                j = ps[0]
                if B[j]['t']['k'] == 'call' and B[j]['t']['fd'] == TRY_BRANCH:
                    branch = j
                    break
            if branch is None:
                res.append((i, '? (operand not resolved)', loc(t['span'])))
                continue
            a = B[branch]['t']['args'][0]
            srcs = [o for o in fn.origins(a)]
            ok_all = True
            desc = None
            for o in srcs:
                if o[0] != 'call':
                    ok_all = False
                    desc = '? on a non-call value'
                    continue
                ct = B[o[1]]['t']
                if log_re.search(ct['fd']):
                    continue                       # `log.failure(..)?`: the log is the operand
                clos = [fn.locals[x['l']].get('closure') for x in ct['args'] if 'l' in x and fn.locals[x['l']].get('closure')]
                if any(closure_logs(prog, c) for c in clos):
                    continue                       # map_err(|e| log..)
                # receiver chain: x.map_err(log) earlier in the chain?  follow arg0 one more level for adaptor calls
                if ct['fd'].startswith('std::result::Result') or ct['fd'].startswith('std::option::Option'):
                    inner_ok = False
                    for o2 in fn.origins(ct['args'][0]) if ct['args'] else []:
                        if o2[0] == 'call':
                            ct2 = B[o2[1]]['t']
                            clos2 = [fn.locals[x['l']].get('closure') for x in ct2['args'] if 'l' in x and fn.locals[x['l']].get('closure')]
                            if any(closure_logs(prog, c) for c in clos2) or log_re.search(ct2['fd']):
                                inner_ok = True
                            tg2 = prog.callee_targets(ct2)
                            if tg2 and all(takes_tracker(prog.fn(g)) and not unlogged_err_exits(prog, prog.fn(g), depth + 1, _memo, log_re) for g in tg2) and depth < 3:
                                inner_ok = True
                    if inner_ok:
                        continue
                tg = prog.callee_targets(ct)
                if tg and depth < 3 and all(takes_tracker(prog.fn(g)) and not unlogged_err_exits(prog, prog.fn(g), depth + 1, _memo, log_re) for g in tg):
                    continue                       # callee is itself R-LOGGED
                ok_all = False
                desc = '? on ' + re.sub(r'::<.*', '', ct['fd']).split('::')[-1]
                site = loc(ct['span'])
            if not ok_all:
                res.append((i, desc, site if desc and desc.startswith('? on') and 'site' in dir() else loc(t['span'])))
        for dst, rv in b['s']:
            if dst['l'] == 0 and not dst['p'] and rv['k'] == 'agg' and rv.get('variant') == 'Err' and 'Result' in rv.get('adt', ''):
                j = i
                logged = False
                for _ in range(60):
                    if B[j]['t']['k'] == 'call' and log_re.search(B[j]['t']['fd']) and j != i:
                        logged = True
                        break
                    ps = preds[j]
                    if len(ps) != 1:
                        break
                    j = ps[0]
                    if B[j]['t']['k'] == 'switch':
                        break
                if B[i]['t']['k'] == 'call' and log_re.search(B[i]['t']['fd']):
                    logged = True
                if not logged:
                    res.append((i, 'return Err', loc(rv.get('span'))))
    _memo[fn.name] = res
    return res
