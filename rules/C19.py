"""C19 Ingredient graph validation terminates and rejects malformed graphs."""
import re
from lib import CallGuard, loc, classify_ret
from terms import Terms
import logs
import oblig
import recursion
import discipline

EXPLANATION = ("Call-graph + all-paths MIR rules on the three ingredient traversals (Store::ingredient_checks(_async), get_claim_referenced_manifests_impl, "
               "get_hash_binding_manifest_impl): each recursive call is dominated by its bound (depth counter compared with the finite constant MAX_INGREDIENT_DEPTH and "
               "incremented at the call; path/visited membership tests), over-deep graphs return Err, cyclic graphs log assertion.ingredient.malformed-class failures and "
               "return Err(CyclicIngredients) which callers propagate, dangling references log ingredient.manifest.missing as Failure. Decides termination structure and "
               "rejection plumbing; for polynomial time only the memo structure (an already expanded manifest is not expanded again) is decided, not the bound itself.")
RULE = "obligation = (traversal function, recursive call | rejection exit, guard/log)"

TRAV = ['store::Store::ingredient_checks', 'store::Store::ingredient_checks_async', 'store::Store::ingredient_checks_async::{closure#0}',
        'store::Store::get_claim_referenced_manifests_impl', 'store::Store::get_hash_binding_manifest_impl']


def run(ctx):
    prog = ctx.prog(('c2pa',))
    consts = logs.const_strings(prog)
    T = Terms(prog)
    n = recursion.check_sccs(ctx, 'C19-D1', prog, T, only=lambda name: name in TRAV)
    ctx.floor('ingredient traversal functions with recursion', n, 4, rule='C19-D1')
    # D2 rejection obligations
    for name in ('store::Store::ingredient_checks', 'store::Store::ingredient_checks_async::{closure#0}'):
        if not ctx.require(prog.has(name), name):
            continue
        fn = prog.fn(name)
        ctx.analysed(name, len(list(fn.calls())))
        # over-deep => Err
        ok = False
        for bi, b in enumerate(fn.B):
            for dst, rv in b['s']:
                if rv['k'] == 'bin' and rv['op'] in ('Ge', 'Gt') and 'MAX_INGREDIENT_DEPTH' in (T.op_term(fn, rv['a']) + T.op_term(fn, rv['b'])):
                    # true edge must reach only Err returns
                    sw = b['t']
                    if sw['k'] == 'switch':
                        tgt = [tb for v, tb in sw['ts'] if v != 0] or [sw['o']]
                        tgt = [sw['o']] if sw['ts'] and sw['ts'][0][0] == 0 else tgt
                        import verdict
                        ok = all(only_err_from(fn, x) for x in tgt)
        ctx.ob('C19-D2', name, 'depth >= MAX_INGREDIENT_DEPTH', 'every path returns Err', ok)
        sites = logs.log_sites(prog, fn, consts)
        miss = [s for s in sites if ('str', 'ingredient.manifest.missing') in s['codes'] and s['kind'] == 'failure']
        ctx.ob('C19-D2', name, 'dangling ingredient reference', 'ingredient.manifest.missing logged as Failure', bool(miss))
        g = CallGuard(r'Store::get_claim$', 'none', name='referenced ingredient manifest not in store')
        isf = lambda bi, b, _m=set(s['bi'] for s in miss): bi in _m
        oblig.failing_edge_obligation(ctx, 'C19-D2', fn, g, isf, 'ingredient.manifest.missing Failure log')
        # visited set: recursion only when insert = true (shared sub-graphs verified once)
        rec = [bi for bi, t in fn.calls() if re.search(r'Store::ingredient_checks(_async)?$', t['fd'])]
        gi = CallGuard(r'HashSet::<T, S, A>::insert$', 'true', name='visited.insert(label) = true')
        for bi in rec:
            oblig.effect_requires(ctx, 'C19-D2', fn, 'recursive descent', lambda b2, blk, _bi=bi: b2 == _bi, [gi])
    gr = 'store::Store::get_claim_referenced_manifests_impl'
    if ctx.require(prog.has(gr), gr):
        fn = prog.fn(gr)
        ctx.analysed(gr, len(list(fn.calls())))
        sites = logs.log_sites(prog, fn, consts)
        cyc = [1 for b in fn.B for dst, rv in b['s'] if rv['k'] == 'agg' and rv.get('variant') == 'CyclicIngredients']
        ctx.ob('C19-D2', gr, 'cyclic ingredient graph', 'Err(CyclicIngredients) constructed', bool(cyc))
        # cycle test true edge reaches a Failure log and Err
        g = CallGuard(r'(Vec|slice).*::contains$|core::slice::<impl \[T\]>::contains$', 'true', name='claim_label_path.contains(label) = true (cycle)')
        isf, _ = oblig.log_block_pred(prog, fn, consts, kinds=('failure',))
        oblig.failing_edge_obligation(ctx, 'C19-D2', fn, g, isf, 'a Failure log for the cyclic reference', accept_ret=())
        miss = [s for s in sites if ('str', 'ingredient.manifest.missing') in s['codes'] and s['kind'] == 'failure']
        ctx.ob('C19-D2', gr, 'dangling ingredient reference', 'ingredient.manifest.missing logged as Failure', bool(miss))
        # D3 polynomial structure: a manifest already expanded is not expanded again (memo on the shared map), otherwise shared sub-graphs are walked once per path
        rec = [bi for bi, t in fn.calls() if t['fd'].endswith('Store::get_claim_referenced_manifests_impl')]
        gm = CallGuard(r'HashMap.*::contains_key$', 'false', name='manifest_map.contains_key(label) = false (not expanded yet)')
        for bi in rec:
            oblig.effect_requires(ctx, 'C19-D3', fn, 'recursive expansion of a referenced manifest', lambda b2, blk, _bi=bi: b2 == _bi, [gm])
        memo_fill = [bi for bi, t in fn.calls() if re.search(r'HashMap.*::insert$', t['fd']) and 'manifest_map' in T.call_term(fn, bi)]
        ctx.ob('C19-D3', gr, 'memo table', 'filled (manifest_map.insert) in the traversal', bool(memo_fill), detail=str(len(memo_fill)))
        # callers propagate its error
        for name in prog.fns():
            f2 = prog.fn(name)
            for bi, t in f2.calls():
                if gr in prog.callee_targets(t) and name != gr:
                    kinds = sorted(set(c[0] for c in discipline.consumers(f2, bi)))
                    ctx.ob('C19-D2', name, 'result of get_claim_referenced_manifests_impl', 'propagated', kinds == ['propagate'], detail=str(kinds), site=loc(t['span']))
    gh = 'store::Store::get_hash_binding_manifest_impl'
    if prog.has(gh):
        # cyclic update chain => None => HARD_BINDINGS_MISSING (checked in C01-D3); here: visited.insert false returns None
        fn = prog.fn(gh)
        g = CallGuard(r'HashSet::<T, S, A>::insert$', 'false', name='visited.insert(label) = false (cycle)')
        oblig.failing_edge_obligation(ctx, 'C19-D2', fn, g, lambda bi, b: False, 'return None', accept_ret=('None',))


def only_err_from(fn, start):
    from lib import FROM_RESIDUAL
    seen = set()
    work = [(start, False)]
    while work:
        b, e = work.pop()
        if (b, e) in seen:
            continue
        seen.add((b, e))
        blk = fn.B[b]
        for dst, rv in blk['s']:
            if dst['l'] == 0 and not dst['p']:
                e = rv['k'] == 'agg' and rv.get('variant') == 'Err'
        t = blk['t']
        if t['k'] == 'call' and t['dest']['l'] == 0 and not t['dest']['p']:
            e = t['fd'] == FROM_RESIDUAL
        if t['k'] == 'ret':
            if not e:
                return False
            continue
        for s in fn.succs(b):
            work.append((s, e))
    return True
