"""C37 Revocation evidence is bound to the signing certificate."""
import re
from lib import CallGuard, loc, classify_ret
from terms import Terms
import logs
import oblig
import decisions
import discipline

EXPLANATION = ("All-paths MIR rules: in cose::ocsp::check_ocsp_status / process_ocsp_responses (sync and async) the `has_status(signingCredential.revoked) = true` "
               "edge reaches only an Err return, and that Err is propagated with `?` through claim::check_ocsp_status, Claim::verify_claim and Store::verify_store; inside "
               "OcspResponse::from_der_checked every revoked / notRevoked status log is reachable only after cert_id_matches_signer(..) = true for the response being "
               "evaluated, whose truth condition requires the serial number AND issuer-name hash AND issuer-key hash to match; the decision table of from_der_checked "
               "(which conditions decide each status log) agrees with the reviewed table; the certificate chain handed to from_der_checked comes from the same sign1. "
               "OCSP signature/validity evaluation is not decided.")
RULE = "obligation = (function, status log | revoked edge, guard) ; plus decision-table rows and DNF clauses"
ODC = 'crypto::ocsp::OcspResponse::from_der_checked'
CIM = 'crypto::ocsp::cert_id_matches_signer'


def run(ctx):
    prog = ctx.prog(('c2pa',))
    consts = logs.const_strings(prog)
    T = Terms(prog)
    # ---- D1 revoked => Err
    n = 0
    for name in prog.fns():
        if not re.match(r'^crypto::cose::ocsp::(check_ocsp_status|process_ocsp_responses|check_stapled_ocsp_response|fetch_and_check_ocsp_response)(_async::\{closure#0\})?$', name):
            continue
        fn = prog.fn(name)
        g = CallGuard(r'StatusTracker::has_status$', 'true', argpred=lambda f, bi, t: any(a.get('item', '').endswith('SIGNING_CREDENTIAL_REVOKED') or ('l' in a and any(o[0] == 'item' and o[1].endswith('SIGNING_CREDENTIAL_REVOKED') for o in f.origins(a))) for a in t['args']), name='log.has_status(signingCredential.revoked) = true')
        if not any(g.matches_call(fn, bi, t) for bi, t in fn.calls()):
            continue
        ctx.analysed(name, len(list(fn.calls())))
        n += oblig.failing_edge_obligation(ctx, 'C37-D1', fn, g, lambda bi, b: False, 'an Err return (revoked certificate)')
    ctx.floor('revoked-status tests in cose::ocsp', n, 4, rule='C37-D1')
    # propagation chain
    chain = [(r'^claim::check_ocsp_status(_async)?$', r'^crypto::cose::ocsp::check_ocsp_status(_async)?$'),
             (r'^claim::Claim::verify_claim(_async)?(::\{closure#0\})?$', r'^claim::check_ocsp_status(_async)?$'),
             (r'^store::Store::verify_store(_async)?(::\{closure#0\})?$', r'^claim::Claim::verify_claim(_async)?$'),
             (r'^store::Store::ingredient_checks(_async)?(::\{closure#0\})?$', r'^claim::Claim::verify_claim(_async)?$')]
    for callerp, calleep in chain:
        cnt = 0
        for name in prog.fns():
            if not re.search(callerp, name):
                continue
            fn = prog.fn(name)
            for bi, t in fn.calls():
                if re.search(calleep, t['fd']):
                    cnt += 1
                    kinds = sorted(set(c[0] for c in discipline.consumers(fn, bi)))
                    ctx.ob('C37-D1', name, 'result of ' + t['fd'].split('::')[-1], 'propagated (? / tail return)', kinds == ['propagate'], detail=str(kinds), site=loc(t['span']))
        ctx.floor('propagation sites %s -> %s' % (callerp[1:30], calleep[1:40]), cnt, 1, rule='C37-D1')
    # ---- D2 binding
    if ctx.require(prog.has(ODC), ODC):
        fn = prog.fn(ODC)
        ctx.analysed(ODC, len(list(fn.calls())))
        sites = logs.log_sites(prog, fn, consts)
        st = set(s['bi'] for s in sites if any(k == 'str' and v in ('signingCredential.ocsp.revoked', 'signingCredential.ocsp.notRevoked') for k, v in s['codes']))
        ctx.floor('revoked/notRevoked status log sites in from_der_checked', len(st), 5, rule='C37-D2')
        g = CallGuard(r'cert_id_matches_signer$', 'true', name='cert_id_matches_signer(single_response.cert_id, signing_cert_chain) = true')
        oblig.effect_requires(ctx, 'C37-D2', fn, 'status log (revoked / notRevoked)', lambda bi, b, _s=st: bi in _s, [g])
        for bi, t in fn.calls():
            if g.matches_call(fn, bi, t):
                term = T.call_term(fn, bi)
                ctx.ob('C37-D2', ODC, 'cert_id_matches_signer arguments', '(cert_id of the response under evaluation, signing_cert_chain parameter)', 'cert_id' in term and 'signing_cert_chain' in term, detail=term[:200], site=loc(t['span']))
        decisions.compare(ctx, 'C37-D2', prog, T, fn, consts, 'C37_from_der_checked', k=4, bools=True, kinds=('failure', 'informational', 'success'))
    if ctx.require(prog.has(CIM), CIM):
        s, dnf = T.truth_dnf(CIM)
        from terms import norm_dnf
        dnf = norm_dnf(T, dnf)
        ctx.analysed(CIM)
        ok = dnf is not None and len(dnf) > 0
        ctx.ob('C37-D2', CIM, 'truth condition', 'computable', ok, detail=s[:200])
        for i, c in enumerate(dnf or []):
            ser = any(re.match(r'^PartialEq::eq\(', l) and re.search(r'[(,]cert_id\.\w+[,)]', l) and 'decode(' in l and 'hash_by_oid(' not in l for l in c)
            nh = any(re.match(r'^PartialEq::eq\(', l) and re.search(r'[(,]cert_id\.\w+[,)]', l) and re.search(r'hash_by_oid\(cert_id\.[\w.]+,encode\(', l) for l in c)
            kh = any(re.match(r'^PartialEq::eq\(', l) and re.search(r'[(,]cert_id\.\w+[,)]', l) and re.search(r'hash_by_oid\(cert_id\.[\w.]+,BitVec::as_raw_slice\(', l) for l in c)
            ctx.ob('C37-D2', CIM, 'return true (class %d)' % i, 'serial number matches', ser, detail=' & '.join(sorted(c))[:300])
            ctx.ob('C37-D2', CIM, 'return true (class %d)' % i, 'issuer name hash matches', nh, detail=' & '.join(sorted(c))[:300])
            ctx.ob('C37-D2', CIM, 'return true (class %d)' % i, 'issuer key hash matches', kh, detail=' & '.join(sorted(c))[:300])
    # the chain given to from_der_checked comes from cert_chain_from_sign1 of the same sign1
    nfd = 0
    for name in prog.fns():
        fn = prog.fn(name)
        for bi, t in fn.calls():
            if t['fd'] == ODC and '::tests' not in name:
                nfd += 1
                term = T.op_term(fn, t['args'][1])
                ok = 'cert_chain_from_sign1' in term or 'certs' in term or 'signing_cert_chain' in term
                srcs = set(T.origin_term(fn, o)[0] for o in fn.origins(t['args'][1]))
                ctx.ob('C37-D2', name, 'from_der_checked(der, chain, ..)', 'chain = cert_chain_from_sign1(sign1)', any('cert_chain_from_sign1' in x for x in srcs) or any('cert_chain_from_sign1' in x for x in [term]), detail=str(sorted(srcs))[:160], site=loc(t['span']))
    ctx.floor('from_der_checked call sites', nfd, 3, rule='C37-D2')
    # D3 serial lookup
    for name in ('claim::Claim::verify_claim', 'claim::Claim::verify_claim_async::{closure#0}'):
        if prog.has(name):
            fn = prog.fn(name)
            for bi, t in fn.calls():
                if re.search(r'HashMap.*::get$', t['fd']) and 'certificate_statuses' in T.op_term(fn, t['args'][0]):
                    term = T.op_term(fn, t['args'][1])
                    ctx.ob('C37-D3', name, 'certificate_statuses.get(k)', 'k = serial number of the signing certificate of this sign1', 'get_signing_cert_serial_num' in term, detail=term[:160], site=loc(t['span']))
