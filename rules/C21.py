"""C21 Update manifests cannot alter bound content or carry forbidden parts (obligation clauses)."""
import re
from lib import CallGuard, LocalGuard, loc, classify_ret
from terms import Terms, ret_hits, fact_literals
import logs
import oblig
from oblig import TermGuard

EXPLANATION = ("All-paths MIR rules: under claim.update_manifest() = true in Claim::verify_internal a disallowed action, a missing parentOf ingredient and more than one "
               "parent each reach a manifest.update.* Failure log; in verify_hash_binding an update manifest carrying hash assertions logs manifest.update.invalid; "
               "the write-side sibling Store::update_manifest_test (or equivalent commit path) rejects the same four cases with Err; the hash binding verified for an "
               "update manifest is the one found by get_hash_binding_manifest (C01-D3). Content equality is not decided.")
RULE = "obligation = (function, rule guard, Failure log / Err)"
VI = 'claim::Claim::verify_internal'
VHB = 'claim::Claim::verify_hash_binding'


def run(ctx):
    prog = ctx.prog(('c2pa',))
    consts = logs.const_strings(prog)
    T = Terms(prog)
    if ctx.require(prog.has(VI), VI):
        fn = prog.fn(VI)
        ctx.analysed(VI, len(list(fn.calls())))
        sites = logs.log_sites(prog, fn, consts)
        inv = set(s['bi'] for s in sites if ('str', 'manifest.update.invalid') in s['codes'] and s['kind'] == 'failure')
        wp = set(s['bi'] for s in sites if ('str', 'manifest.update.wrongParents') in s['codes'] and s['kind'] == 'failure')
        mp = set(s['bi'] for s in sites if ('str', 'manifest.multipleParents') in s['codes'] and s['kind'] == 'failure')
        ctx.floor('manifest.update.invalid Failure sites in verify_internal', len(inv), 3, rule='C21-D1')
        ctx.ob('C21-D1', VI, 'manifest.update.wrongParents', 'Failure log present', bool(wp))
        ctx.ob('C21-D1', VI, 'manifest.multipleParents', 'Failure log present', bool(mp))
        g_upd = CallGuard(r'Claim::update_manifest$', 'true', name='claim.update_manifest() = true')
        # all update-rule failure logs are under update_manifest() = true
        oblig.effect_requires(ctx, 'C21-D1', fn, 'manifest.update.* Failure logs', lambda bi, b, _s=inv | wp: bi in _s, [g_upd])
        # disallowed action: any(ALLOWED..) false => invalid
        g_act = CallGuard(r'Iterator::any$', 'false', argpred=lambda f, bi, t: 'ALLOWED_UPDATE_MANIFEST_ACTIONS' in T.call_term(f, bi), name='action in ALLOWED_UPDATE_MANIFEST_ACTIONS = false')
        oblig.failing_edge_obligation(ctx, 'C21-D1', fn, g_act, lambda bi, b, _s=inv: bi in _s, 'manifest.update.invalid Failure log')
        # the membership test is an equality with the action name (a prefix/substring test would admit e.g. c2pa.edited through c2pa.edited.metadata)
        mem = [T.call_term(fn, bi) for bi, t in fn.calls() if g_act.matches_call(fn, bi, t)]
        from terms import canon_lit
        exact = [m for m in mem if re.fullmatch(r'Iterator::any\[PartialEq::eq\((\w+,Action::action\(\w+\)|Action::action\(\w+\),\w+)\)\]\(ALLOWED_UPDATE_MANIFEST_ACTIONS\)', m)]
        ctx.ob('C21-D1', VI, 'allowed-action test', 'equality of the list element with action.action()', bool(mem) and len(exact) == len(mem), detail=str(mem)[:200])
        # the actions examined are those of claim.action_assertions() (all actions assertions, created and gathered)
        src_ok = False
        for bi, t in fn.calls():
            if t['fd'].endswith('Actions::from_assertion') or ('from_assertion' in t['fd'] and 'Actions' in t['f']):
                term = T.call_term(fn, bi)
                if re.search(r'Claim::action_assertions\(claim\)', term):
                    src_ok = True
        ctx.ob('C21-D1', VI, 'update-manifest action check', 'iterates Claim::action_assertions(claim)', src_ok)
        # parent_count switch: 0 => wrongParents ; >1 => invalid.  parent_count = filter(ParentOf).count()
        # the parent count is identified by how it is computed, not by its name: a local defined by `..ingredient_assertions()..filter(ParentOf)..count()`,
        # inline or through a private helper of the crate whose body does that
        def counts_parents(term_or_fn):
            return 'Iterator::count' in term_or_fn and 'ingredient_assertions' in term_or_fn
        pc = []
        for l in range(len(fn.locals)):
            for d in fn.defs.get(l, ()):
                if d[0] != 'call':
                    continue
                term = T.call_term(fn, d[1])
                ok_inline = counts_parents(term)
                ok_helper = False
                for tgt in prog.callee_targets(fn.B[d[1]]['t']):
                    if prog.has(tgt) and 'claim::' in tgt:
                        hf = prog.fn(tgt)
                        body = ' '.join(T.call_term(hf, b2) for b2, t2 in hf.calls())
                        if counts_parents(body) and hf.d.get('ret') in ('usize', 'u32', 'u64'):
                            ok_helper = True
                if (ok_inline and fn.local_ty(l) in ('usize', 'u32', 'u64')) or ok_helper:
                    pc.append(l)
        # named user variable preferred (temporaries holding the same value are copies)
        named = [l for l in pc if not fn.name_of(l).startswith('_')]
        pc = named or pc
        PCN = set(fn.name_of(l) for l in pc)
        ctx.ob('C21-D1', VI, 'parent count', 'computed as the number of ingredient assertions with relationship ParentOf (inline or in a private helper)', bool(pc), detail=str(sorted(PCN)))
        eng, hits = ret_hits(fn, maxstates=1) if False else (None, None)
        # path rule via engine on the switch over parent_count inside update branch
        from lib import Engine
        eng = Engine(fn, track_calls=lambda bi, t: g_upd.matches_call(fn, bi, t), track_atom=lambda a: (a[0] == 'local' and fn.name_of(a[1]) in PCN) or (a[0] in ('cmp',) and any(n_ in T.atom_term(fn, a) for n_ in PCN)))

        def mon(bi, b, env, facts, ms):
            # ms: (seen_wrongParents, seen_invalid)
            w, i = ms
            if bi in wp:
                w = 1
            if bi in inv:
                i = 1
            labels = []
            if b['t']['k'] == 'ret':
                labels = [(w, i)]
            return (w, i), labels
        mon.init = (0, 0)
        hits = eng.explore(mon)
        ctx.states += eng.states
        bad0 = badn = None
        n0 = nn = 0
        for (w, i), bi, facts, env, key in hits:
            cls = classify_ret(fn, env.get(0))
            upd = g_upd.holds(fn, facts)
            if not upd:
                continue
            for a, v in facts.items():
                if a[0] == 'local' and fn.name_of(a[1]) in PCN:
                    if v == 0:
                        n0 += 1
                        if not w and cls not in ('Err', 'residual'):
                            bad0 = eng.path_of(key)
                    elif isinstance(v, tuple) and v[0] == 'else' and 1 in v[1] and 0 in v[1]:
                        nn += 1
                        if not i and cls not in ('Err', 'residual'):
                            badn = eng.path_of(key)
        ctx.ob('C21-D1', VI, 'update manifest with 0 parentOf ingredients', 'manifest.update.wrongParents Failure log (or Err)', bad0 is None and n0 > 0, detail='%d paths' % n0)
        ctx.ob('C21-D1', VI, 'update manifest with >1 parentOf ingredients', 'manifest.update.invalid Failure log (or Err)', badn is None and nn > 0, detail='%d paths' % nn)
    if ctx.require(prog.has(VHB), VHB):
        fn = prog.fn(VHB)
        ctx.analysed(VHB, len(list(fn.calls())))
        sites = logs.log_sites(prog, fn, consts)
        inv = set(s['bi'] for s in sites if ('str', 'manifest.update.invalid') in s['codes'] and s['kind'] == 'failure')
        ctx.ob('C21-D1', VHB, 'update manifest with hash assertions', 'manifest.update.invalid Failure log present', bool(inv))
        g_upd = CallGuard(r'Claim::update_manifest$', 'true', name='claim.update_manifest() = true')
        g_ne = CallGuard(r'Vec::<T, A>::is_empty$', 'false', name='hash_assertions.is_empty() = false')
        oblig.effect_requires(ctx, 'C21-D1', fn, 'manifest.update.invalid Failure log', lambda bi, b, _s=inv: bi in _s, [g_upd])
        oblig.effect_requires(ctx, 'C21-D1', fn, 'manifest.update.invalid Failure log', lambda bi, b, _s=inv: bi in _s, [g_ne])
    # D2 write side
    ut = [n for n in prog.fns() if re.search(r'update_manifest_test|validate_update_manifest|is_valid_update_manifest', n) and '{closure' not in n]
    ctx.ob('C21-D2', '-', 'write-side update-manifest rule check', 'exists', bool(ut), detail=str(ut))
    for name in ut:
        fn = prog.fn(name)
        ctx.analysed(name, len(list(fn.calls())))
        errs = [1 for b in fn.B for dst, rv in b['s'] if dst['l'] == 0 and rv['k'] == 'agg' and rv.get('variant') == 'Err'] + [1 for bi, t in fn.calls() if t['fd'].endswith('from_residual') and t['dest']['l'] == 0]
        ctx.ob('C21-D2', name, 'rule violations', '>= 3 Err exits', len(errs) >= 3, detail='%d Err exits' % len(errs))
        callers = sorted(prog.rcg.get(name, ()))
        ctx.ob('C21-D2', name, 'callers', 'invoked on the commit/sign path', bool(callers), detail=str(callers[:4]))
