"""C29 Resource files are confined to the manifest directory."""
import re
from lib import CallGuard, loc, classify_ret
from terms import Terms, ret_hits, fact_literals
import oblig

EXPLANATION = ("Sanitiser-dominance rules over MIR: every filesystem sink (std::fs::*, File::open/create, OpenOptions::open, Path::exists/canonicalize, create_dir_all) in "
               "resource_store.rs, reader.rs, builder.rs, ingredient.rs and utils whose path is built by joining a non-constant component onto a base directory must take "
               "that component from resolve_within_root / sanitize_archive_path / uri_to_path (def-use); resolve_within_root returns Ok(joined) only after: non-empty, no "
               "backslash, not absolute, lexical starts_with(root) true, and - whenever canonicalize() of the joined path succeeds - canonical Path::starts_with(canonical root) "
               "true (component-wise Path::starts_with, not a string prefix test); sanitize_archive_path rejects RootDir/Prefix/ParentDir components; ResourceStore::exists probes "
               "the disk only with a resolved path. Filesystem state at call time and symlink containment of writes are not decided.")
RULE = "obligation = (function, filesystem sink, sanitiser) / (resolver function, Ok return, guard literal)"
FS = re.compile(r'^std::fs::(read|write|read_to_string|copy|rename|remove_file|remove_dir_all|remove_dir|create_dir|create_dir_all|read_dir|metadata|File::open|File::create|OpenOptions::open)$|^std::fs::File::(open|create|options)$|^std::fs::OpenOptions::open$|^std::path::Path::(exists|is_file|is_dir|canonicalize|read_dir|metadata|try_exists)$')
SCOPE = re.compile(r'sdk/src/(resource_store|reader|builder|ingredient)\.rs$|sdk/src/utils/(io_utils|path_utils)\.rs$')
SANITISERS = ('resolve_within_root', 'sanitize_archive_path', 'uri_to_path')
RWR = 'resource_store::resolve_within_root'


def run(ctx):
    prog = ctx.prog(('c2pa',))
    T = Terms(prog)
    nsink = njoin = 0
    for name in prog.fns():
        fn = prog.fn(name)
        if not SCOPE.search(fn.d['span']['file']) or name == RWR:
            continue
        for bi, t in fn.calls():
            if not FS.search(t['fd']) or not t['args']:
                continue
            nsink += 1
            # find Path::join / PathBuf::push / format! feeding the path operand
            pa = t['args'][-1] if t['fd'].endswith('OpenOptions::open') else t['args'][0]
            joins = []
            work = [o for o in fn.origins(pa)]
            seen = set()
            while work:
                o = work.pop()
                if o in seen:
                    continue
                seen.add(o)
                if o[0] == 'call':
                    ct = fn.B[o[1]]['t']
                    if re.search(r'Path::join$|PathBuf::push$|Path::with_file_name$', ct['fd']):
                        joins.append(o[1])
                    elif re.search(r'Path::parent$|Option::<T>::unwrap_or$|Path::new$|PathBuf::from$|Result::<T, E>::map_err$|PathBuf::as_path$|Path::to_path_buf$', ct['fd']) or any(s in ct['fd'] for s in SANITISERS):
                        pass
                    for a in ct['args']:
                        if 'l' in a:
                            work.extend(fn.origins(a))
                elif o[0] == 'field':
                    work.append(o[1])
            if not joins:
                ctx.ob('C29-D1', name, short_fd(t) + '(' + T.op_term(fn, pa)[:50] + ')', 'path is a caller-supplied parameter or a sanitised path (no join)', True, site=loc(t['span']), nontrivial=False)
                continue
            for jb in joins:
                jt = fn.B[jb]['t']
                comp = jt['args'][1]
                if 'c' in comp:
                    ctx.ob('C29-D1', name, short_fd(t) + ' on join(.., ' + T.op_term(fn, comp)[:30] + ')', 'joined component is a constant', True, site=loc(t['span']), nontrivial=False)
                    continue
                njoin += 1
                ctx.analysed(name, 1)
                cterm = T.op_term(fn, comp)
                origin_terms = ' | '.join(T.origin_term(fn, o)[0] for o in fn.origins(comp))
                ok = any(s + '(' in cterm or s + '(' in origin_terms for s in SANITISERS)
                if not ok and fn.d['kind'] == 'closure':
                    # the component is a parameter of a local closure: every call site of the closure must pass a sanitised value
                    argn = [o[1] for o in fn.origins(comp) if o[0] == 'arg']
                    par = fn.d.get('parent')
                    if argn and par in prog.bodies:
                        pf = prog.fn(par)
                        sites = []
                        for b2, t2 in pf.calls():
                            if t2['fd'] in ('std::ops::Fn::call', 'std::ops::FnMut::call_mut', 'std::ops::FnOnce::call_once') and t2['args'] and 'l' in t2['args'][0] and pf.locals[t2['args'][0]['l']].get('closure') == name:
                                tup = t2['args'][1] if len(t2['args']) > 1 else None
                                term2 = T.op_term(pf, tup) if tup else ''
                                sites.append(term2)
                        if sites and all(any(sn + '(' in x for sn in SANITISERS) for x in sites):
                            ok = True
                            origin_terms = 'closure parameter; all %d call sites pass: %s' % (len(sites), sites[0][:80])
                ctx.ob('C29-D1', name, short_fd(t) + ' on join(base, ' + cterm[:40] + ')', 'joined component comes from resolve_within_root / sanitize_archive_path / uri_to_path', ok,
                       detail='' if ok else 'filesystem sink at %s uses a path joined from an unsanitised component: %s (origins: %s)' % (loc(t['span']), cterm[:80], origin_terms[:120]), site=loc(t['span']))
    ctx.floor('filesystem sinks in scope', nsink, 25, rule='C29-D1')
    ctx.floor('sinks on joined (base + variable) paths', njoin, 3, rule='C29-D1')
    # ---- D2 resolve_within_root
    if ctx.require(prog.has(RWR), RWR):
        fn = prog.fn(RWR)
        ctx.analysed(RWR, len(list(fn.calls())))
        eng, hits = ret_hits(fn)
        ctx.states += eng.states
        nok = 0
        for cls, facts, env, key, bi in hits:
            if cls != 'Ok':
                continue
            nok += 1
            from terms import literal_alternatives
            alts = literal_alternatives(T, fn, facts)      # a check moved into a private helper that returned Ok is read through
            L = set(fact_literals(T, fn, facts))
            for a_ in alts:
                if not (set(a_) >= L):
                    pass
            L = set.intersection(*[set(a_) for a_ in alts]) | L if alts else L
            req = {
                'path non-empty': any(re.match(r'^!(str::)?is_empty\(path\)$', l) for l in L),
                'no backslash': any(re.match(r'^!(str::)?contains\(path,', l) for l in L),
                'not absolute': any(re.match(r'^!Path::is_absolute\(', l) for l in L),
                'lexical starts_with(root)': any(re.match(r'^Path::starts_with\(normalize_lexically\(.*join\(base,path\)\),normalize_lexically\(root\)\)$', l) for l in L),
            }
            canon_ok = any(l.startswith('ok(Path::canonicalize(') and 'join(base,path)' in l for l in L)
            canon_err = any(l.startswith('!ok(Path::canonicalize(') and 'join(base,path)' in l for l in L)
            sym = any(re.match(r'^Path::starts_with\(Path::canonicalize\(.*join\(base,path\)\)\.Ok\.0,.*canonicalize\(root\)', l) for l in L)
            req['canonical containment when the target exists'] = canon_err or (canon_ok and sym)
            for k, v in req.items():
                ctx.ob('C29-D2', RWR, 'return Ok(joined) [path %d]' % nok, k, v, detail=str(sorted(L))[:400])
            vt = T.atom_term(fn, env.get(0))
            ctx.ob('C29-D2', RWR, 'return Ok(joined) [path %d]' % nok, 'returned path = base.join(path)', 'join(base,path)' in vt, detail=vt[:100], nontrivial=False)
        ctx.floor('Ok returns of resolve_within_root', nok, 2, rule='C29-D2')
    sap = [n for n in prog.fns() if n.endswith('sanitize_archive_path')]
    ctx.ob('C29-D2', '-', 'sanitize_archive_path', 'exists', bool(sap))
    for name in sap:
        fn = prog.fn(name)
        ctx.analysed(name, 0)
        # Ok must not be reachable after seeing a RootDir / Prefix / ParentDir component: those arms return Err
        cadt_idx = {'Prefix': 0, 'RootDir': 1, 'CurDir': 2, 'ParentDir': 3, 'Normal': 4}
        eng, hits = ret_hits(fn)
        ctx.states += eng.states
        bad = None
        for cls, facts, env, key, bi in hits:
            if cls != 'Ok':
                continue
            for a, v in facts.items():
                tt = T.atom_term(fn, a)
                if 'Components' in tt or 'components' in tt or 'Iterator::next' in tt:
                    if a[0] == 'discr' and v in (0, 1, 3):
                        bad = (tt, v)
        ctx.ob('C29-D2', name, 'return Ok', 'never after a Prefix / RootDir / ParentDir component', bad is None, detail='' if bad is None else str(bad))
    # ---- D3 exists(): disk probe only with a resolved path
    ex = 'resource_store::ResourceStore::exists'
    if prog.has(ex):
        fn = prog.fn(ex)
        ctx.analysed(ex, 0)
        g = CallGuard(r'resolve_within_root$', 'ok', name='resolve_within_root(..) = Ok')
        probes = set(bi for bi, t in fn.calls() if re.search(r'Path::(exists|is_file|try_exists)$', t['fd']))
        ctx.ob('C29-D3', ex, 'disk probe', 'present', bool(probes))
        oblig.effect_requires(ctx, 'C29-D3', fn, 'Path::exists probe', lambda bi, b, _p=probes: bi in _p, [g])


def short_fd(t):
    return '::'.join(t['fd'].split('::')[-2:])
