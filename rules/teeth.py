"""Teeth check (thorough tier): the rule for a property is re-run on scratch copies of /repo's current tree with each confirmed
seeded change of that property applied (seeded/<id>/patch.diff, meta.json: detected_by).  A change the rule is recorded to detect
must make the quick check exit 1.  The outcome is evidence about the checker, not about the repository: it never changes the
verdict or the exit status of the check."""
import glob
import json
import os
import shutil
import subprocess
import tempfile
import time

VERIF = os.path.dirname(os.path.dirname(os.path.abspath(__file__)))
REPO = os.environ.get('VERIF_REPO', '/repo')


def run(pid, limit=None):
    out = []
    metas = []
    for mj in sorted(glob.glob(os.path.join(VERIF, 'seeded', '*', 'meta.json'))):
        try:
            m = json.load(open(mj))
        except Exception:
            continue
        if pid in (m.get('detected_by') or []):
            metas.append((os.path.dirname(mj), m))
    for d, m in metas[:limit]:
        mid = os.path.basename(d)
        tmp = tempfile.mkdtemp(prefix='vteeth_', dir='/var/tmp')
        rec = {'change': mid, 'property': m.get('property')}
        try:
            scratch = os.path.join(tmp, 'repo')
            subprocess.run(['rsync', '-a', '--exclude', 'target', '--exclude', '.git', REPO + '/', scratch + '/'], check=True)
            r = subprocess.run(['patch', '-p1', '-s', '--no-backup-if-mismatch', '-i', os.path.join(d, 'patch.diff')], cwd=scratch, capture_output=True, text=True)
            if r.returncode != 0:
                rec['result'] = 'stale (the change no longer applies to the current tree)'
            else:
                env = dict(os.environ, VERIF_REPO=scratch, VERIF_EVIDENCE_DIR=os.path.join(tmp, 'ev'), VERIF_NO_TEETH='1')
                env.pop('VERIF_EXHAUSTIVE', None)
                t0 = time.time()
                r = subprocess.run([os.path.join(VERIF, 'vcheck'), pid, '--tier', 'quick'], env=env, capture_output=True, text=True, cwd=VERIF)
                rec['result'] = 'detected' if r.returncode == 1 and 'VIOLATION' in r.stdout else 'MISSED (exit %d)' % r.returncode
                rec['wall_s'] = round(time.time() - t0, 1)
                keys = [l.strip()[:200] for l in r.stdout.splitlines() if l.strip().startswith('rule=')]
                rec['reported'] = keys[:3]
        except Exception as e:
            rec['result'] = 'error: %r' % (e,)
        finally:
            shutil.rmtree(tmp, ignore_errors=True)
        print('TEETH: property=%s change=%s %s' % (pid, mid, rec['result']))
        out.append(rec)
    return out
