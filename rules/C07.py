"""C07 Embedding round trip: reader/writer/remover agreement on the carrier, locate-before-write, removal really strips, sibling recognisers agree."""
import re
from lib import loc, const_val, rv_operands, CallGuard
from terms import Terms
import oblig

EXPLANATION = ("Agreement rules between the sibling implementations of CAIReader/CAIWriter, per handler (12 AssetIO families, table generated from the impl facts). (D2) the const items "
               "that identify the handler's C2PA carrier (frozen table, e.g. jpeg C2PA_MARKER, png CAI_CHUNK, riff C2PA_CHUNK_ID, tiff C2PA_TAG, bmff C2PA_UUID, id3 GEOB mime types "
               "incl. the deprecated one, jxl BOX_JUMB + label, svg MANIFEST) are referenced in the call closure of read_cai AND write_cai AND remove_cai_store_from_stream. "
               "(D3) every Ok return of write_cai / remove passes the handler's locate-or-strip routine for an existing store (frozen table), so a second write replaces and does not "
               "add. (D4) removers that delegate to write_cai with an empty store: the strip site of the delegate is reachable when the store argument is empty (edges on which "
               "store.is_empty() is false are deleted), and the insert site is not; the ID3 writer re-adds a GEOB frame only on the false edge of is_c2pa_mime_type. (D5) the JPEG "
               "recognisers of C2PA APP11 segments (get_cai_segments, read_cai, object locations, box map) gate on the same minimum segment length. Byte equality of the round trip "
               "for all lengths and validity of the stripped asset are not decided.")
RULE = "obligation = (handler, role, carrier const / locate routine / gate constant)"
AH = 'asset_handlers::'
CARRIER = {
    'bmff_io::BmffIO': ['bmff_io::C2PA_UUID'],
    'flac_io::FlacIO': ['id3_helper::GEOB_FRAME_MIME_TYPE', 'id3_helper::GEOB_FRAME_MIME_TYPE_DEPRECATED'],
    'mp3_io::Mp3IO': ['id3_helper::GEOB_FRAME_MIME_TYPE', 'id3_helper::GEOB_FRAME_MIME_TYPE_DEPRECATED'],
    'jpeg_io::JpegIO': ['jpeg_io::C2PA_MARKER'],
    'jpegxl_io::JpegXlIO': ['jpegxl_io::BOX_JUMB', 'jpegxl_io::JUMD_C2PA_LABEL_PEEK'],
    'png_io::PngIO': ['png_io::CAI_CHUNK'],
    'riff_io::RiffIO': ['riff_io::C2PA_CHUNK_ID'],
    'svg_io::SvgIO': ['svg_io::MANIFEST'],
    'tiff_io::TiffIO': ['tiff_io::C2PA_TAG'],
    # gif: the application-extension identifier is a literal inside ApplicationExtension::{new_c2pa,is_c2pa}; checked below by callee identity
    'gif_io::GifIO': [],
    # c2pa sidecar: the file is the store, no carrier
    'c2pa_io::C2paIO': [],
}
LOCATE_WRITE = {
    'bmff_io::BmffIO': r'bmff_io::c2pa_boxes_from_tree_and_map$',
    'flac_io::FlacIO': r'id3_helper::write_cai_with_id3$',
    'mp3_io::Mp3IO': r'id3_helper::write_cai_with_id3$',
    'gif_io::GifIO': r'GifIO::find_c2pa_block$',
    'jpeg_io::JpegIO': r'jpeg_io::delete_cai_segments$',
    'jpegxl_io::JpegXlIO': r'jpegxl_io::find_c2pa_jumb_location$',
    'png_io::PngIO': r'png_io::get_png_chunk_positions$',
    'riff_io::RiffIO': r'riff_io::inject_c2pa$',
    'svg_io::SvgIO': r'svg_io::detect_manifest_location$',
    'tiff_io::TiffIO': r'tiff_io::tiff_clone_with_tags$',
}
LOCATE_REMOVE = {
    'bmff_io::BmffIO': r'bmff_io::get_uuid_token$',
    'flac_io::FlacIO': r'CAIWriter::write_cai$|FlacIO as asset_io::CAIWriter>::write_cai$',
    'mp3_io::Mp3IO': r'CAIWriter::write_cai$|Mp3IO as asset_io::CAIWriter>::write_cai$',
    'gif_io::GifIO': r'GifIO::find_c2pa_block$',
    'jpeg_io::JpegIO': r'jpeg_io::delete_cai_segments$',
    'jpegxl_io::JpegXlIO': r'jpegxl_io::remove_c2pa_jumb_box$',
    'png_io::PngIO': r'png_io::get_png_chunk_positions$',
    'riff_io::RiffIO': r'CAIWriter::write_cai$|RiffIO as asset_io::CAIWriter>::write_cai$',
    'tiff_io::TiffIO': r'BTreeMap::<K, V, A>::contains_key$|BTreeMap::contains_key$',
}


def closure_items(prog, root, cache={}):
    if root in cache:
        return cache[root]
    out = set()
    reach, _p = prog.reach_from([root])
    for n in reach:
        if not prog.has(n) or not re.search(r'asset_handlers|utils::', n):
            continue
        fn = prog.fn(n)
        for b in fn.B:
            ops = []
            for dst, rv in b['s']:
                ops += rv_operands(rv)
            if b['t']['k'] == 'call':
                ops += b['t']['args']
            for o in ops:
                if isinstance(o, dict) and 'c' in o:
                    v = const_val(o)
                    if v[0] == 'item':
                        out.add(v[1].replace(AH, ''))
    cache[root] = out
    return out


def empty_tests_on_store_param(fn):
    """is_empty() calls whose receiver is the function's `&[u8]` parameter (the store bytes), identified by type, not by name"""
    params = [k for k in range(1, fn.argc + 1) if re.fullmatch(r"&('\S+ )?\[u8\]", fn.local_ty(k) or '')]
    out = []
    for bi, t in fn.calls():
        if re.search(r'is_empty$', t['fd']) and t['args']:
            for o in fn.origins(t['args'][0]):
                if o[0] in ('arg', 'local') and o[1] in params:
                    out.append(bi)
    return out


def ok_returns(fn):
    return [bi for bi, b in enumerate(fn.B) for dst, rv in b['s'] if dst['l'] == 0 and not dst['p'] and rv['k'] == 'agg' and rv.get('variant') == 'Ok']


def run(ctx):
    prog = ctx.prog(('c2pa',))
    T = Terms(prog)
    ws = sorted(im['self_ty'] for im in prog.impls if im['trait'].endswith('asset_io::CAIWriter') and im['self_ty'].startswith(AH))
    ctx.floor('CAIWriter implementations', len(ws), 11, rule='C07-D2')
    for ty in ws:
        short = ty.replace(AH, '')
        if not ctx.require(short in CARRIER, 'carrier table entry for ' + short):
            continue
        rn, wn, dn = ('<%s as asset_io::CAIReader>::read_cai' % ty, '<%s as asset_io::CAIWriter>::write_cai' % ty, '<%s as asset_io::CAIWriter>::remove_cai_store_from_stream' % ty)
        if not (ctx.require(prog.has(rn), rn) and ctx.require(prog.has(wn), wn) and ctx.require(prog.has(dn), dn)):
            continue
        for n in (rn, wn, dn):
            ctx.analysed(n, len(list(prog.fn(n).calls())))
        r, w, d = closure_items(prog, rn), closure_items(prog, wn), closure_items(prog, dn)
        for c in CARRIER[short]:
            for role, s in (('read_cai', r), ('write_cai', w), ('remove_cai_store_from_stream', d)):
                ctx.ob('C07-D2', ty, 'carrier const ' + c, 'referenced in the call closure of ' + role, c in s)
        # D3 locate-before-write
        for role, table, name in (('write_cai', LOCATE_WRITE, wn), ('remove_cai_store_from_stream', LOCATE_REMOVE, dn)):
            pat = table.get(short)
            if pat is None:
                if short in ('c2pa_io::C2paIO',) or (role == 'remove_cai_store_from_stream' and short == 'svg_io::SvgIO'):
                    continue
                ctx.require(False, 'locate table entry %s/%s' % (short, role))
                continue
            fn = prog.fn(name)
            okr = ok_returns(fn)
            tails = [bi for bi, t in fn.calls() if re.search(pat, t['fd']) or (t.get('r') and re.search(pat, t['r']))]
            ctx.ob('C07-D3', name, 'locate/strip routine', 'called (%s)' % pat.split('::')[-1].rstrip('$'), bool(tails), detail=str(len(tails)))
            if okr and tails:
                oblig.must_pass_through(ctx, 'C07-D3', fn, lambda bi, b, _o=set(okr): bi in _o, lambda bi, b, _t=set(tails): bi in _t, 'return Ok(())', 'locate/strip of an existing store')
    # svg removal: the element named MANIFEST is skipped in the copy loop
    sn = '<%ssvg_io::SvgIO as asset_io::CAIWriter>::remove_cai_store_from_stream' % AH
    if prog.has(sn):
        fn = prog.fn(sn)
        eqs = [bi for bi, t in fn.calls() if t['fd'].endswith('PartialEq::eq') and 'MANIFEST' in T.call_term(fn, bi)]
        ctx.ob('C07-D3', sn, 'copy loop', 'compares element names with MANIFEST (skips the manifest element)', bool(eqs), detail=str(len(eqs)))
    # gif: reader and writer recognise/emit the block through the same type
    for n, pat in (('<%sgif_io::GifIO as asset_io::CAIReader>::read_cai' % AH, r'find_c2pa_block$'), ('%sgif_io::GifIO::find_c2pa_block' % AH, r'ApplicationExtension::kind$'),
                   ('<%sgif_io::GifIO as asset_io::CAIWriter>::write_cai' % AH, r'ApplicationExtension::new_c2pa$')):
        if ctx.require(prog.has(n), n):
            fn = prog.fn(n)
            reach, _p = prog.reach_from([n])
            hit = [x for x in reach if re.search(pat, x)] or [1 for bi, t in fn.calls() if re.search(pat, t['fd'])]
            ctx.ob('C07-D2', n, 'gif carrier', 'goes through ' + pat.rstrip('$'), bool(hit))
    # ---- D4 removal by empty write
    g_ne = CallGuard(r'is_empty$', 'false', name='store.is_empty() = false')
    # RIFF
    inj = AH + 'riff_io::inject_c2pa'
    if ctx.require(prog.has(inj), inj):
        fn = prog.fn(inj)
        ctx.analysed(inj, len(list(fn.calls())))
        data_empty = empty_tests_on_store_param(fn)
        ctx.floor('data.is_empty() tests in inject_c2pa', len(data_empty), 1, rule='C07-D4')

        class G:
            want = 'false'; name = 'data.is_empty() = false'
            re = re.compile('is_empty')

            def matches_call(self, f2, bi, t):
                return bi in data_empty
        edges, _s = oblig._guard_edges(fn, G())
        reach = fn.reachable(0, avoid_edges=edges)
        strip = [bi for bi, t in fn.calls() if re.search(r'retain$', t['fd']) and 'C2PA_CHUNK_ID' in T.call_term(fn, bi)]
        push = [bi for bi, t in fn.calls() if re.search(r'Vec::<T, A>::push$|Vec::push$', t['fd']) and 'C2PA_CHUNK_ID' in T.call_term(fn, bi)]
        ctx.ob('C07-D4', inj, 'existing C2PA chunk strip (retain != C2PA_CHUNK_ID)', 'reachable when the store argument is empty (removal)', any(b in reach for b in strip), detail='%d strip sites, %d edges deleted' % (len(strip), len(edges)), site=loc(fn.d['span']))
        ctx.ob('C07-D4', inj, 'C2PA chunk insertion', 'not reachable when the store argument is empty', bool(push) and not any(b in reach for b in push), detail=str(len(push)))
        ctx.ob('C07-D4', inj, 'strip and insert sites', 'exist', bool(strip) and bool(push), nontrivial=False)
    # ID3
    wid = AH + 'id3_helper::write_cai_with_id3'
    if ctx.require(prog.has(wid), wid):
        fn = prog.fn(wid)
        ctx.analysed(wid, len(list(fn.calls())))
        g = CallGuard(r'id3_helper::is_c2pa_mime_type$', 'false', name='is_c2pa_mime_type(mime) = false')
        # add_frame on a frame taken from the input tag inside the GEOB arm requires the guard; the catch-all arm re-adds everything else
        adds = [(bi, T.call_term(fn, bi)) for bi, t in fn.calls() if re.search(r'Tag::add_frame$|TagLike::add_frame$|add_frame$', t['fd'])]
        ctx.floor('add_frame sites in write_cai_with_id3', len(adds), 3, rule='C07-D4')
        mime = [bi for bi, t in fn.calls() if g.matches_call(fn, bi, t)]
        ctx.ob('C07-D4', wid, 'GEOB filter', 'uses is_c2pa_mime_type (the predicate the reader uses)', len(mime) == 1, detail=str(len(mime)))
        if mime:
            edges, _s = oblig._guard_edges(fn, g)
            reach = fn.reachable(fn.B[mime[0]]['t']['t'], avoid_edges=edges)
            # after the mime test with its false edges deleted, the only add_frame reachable without re-entering the loop head is none
            loop_next = [bi for bi, t in fn.calls() if t['fd'].endswith('Iterator::next')]
            r2 = fn.reachable(fn.B[mime[0]]['t']['t'], avoid=set(loop_next), avoid_edges=edges)
            bad = [b for b, _t in adds if b in r2]
            ctx.ob('C07-D4', wid, 're-adding a GEOB frame of the input tag', 'only on the false edge of is_c2pa_mime_type (old stores are dropped)', not bad, detail=str(bad))
        rd = [n for n in (AH + 'id3_helper::get_manifest_pos', AH + 'id3_helper::read_cai_from_id3', AH + 'id3_helper::read_cai_id3') if prog.has(n)]
        rdr, _p = prog.reach_from(['<%smp3_io::Mp3IO as asset_io::CAIReader>::read_cai' % AH])
        ctx.ob('C07-D4', 'id3_helper', 'reader acceptance predicate', 'is_c2pa_mime_type (same as the strip filter)', (AH + 'id3_helper::is_c2pa_mime_type') in rdr)
        emp = empty_tests_on_store_param(fn)

        class G2:
            want = 'false'; name = 'store_bytes.is_empty() = false'
            re = re.compile('is_empty')

            def matches_call(self, f2, bi, t):
                return bi in emp
        edges, _s = oblig._guard_edges(fn, G2())
        reach = fn.reachable(0, avoid_edges=edges)
        new = [b for b, tt in adds if 'GEOB' in tt or 'with_content' in tt]
        ctx.ob('C07-D4', wid, 'new GEOB frame', 'not added when the store argument is empty (removal)', bool(new) and not any(b in reach for b in new), detail=str(len(new)))
    # ---- D5 jpeg sibling gates
    gates = {}
    for n in prog.fns():
        if not n.startswith(AH + 'jpeg_io::') and 'jpeg_io::JpegIO' not in n:
            continue
        fn = prog.fn(n)
        if not any('C2PA_MARKER' in T.call_term(fn, bi) for bi, t in fn.calls() if t['fd'].endswith('vec_compare')):
            continue
        ks = []
        for b in fn.B:
            for dst, rv in b['s']:
                if rv['k'] == 'bin' and rv['op'] in ('Gt', 'Ge', 'Lt', 'Le'):
                    a, bb = T.op_term(fn, rv['a']), T.op_term(fn, rv['b'])
                    if re.match(r'^(\w+::)?len\(', a) and re.fullmatch(r'\d+', bb) and int(bb) > 0:
                        k = int(bb) + (1 if rv['op'] == 'Gt' else 0)   # minimum accepted length
                        if rv['op'] in ('Gt', 'Ge'):
                            ks.append(k)
        if ks:
            gates[n] = min(ks)
    ctx.floor('JPEG functions that recognise C2PA APP11 segments', len(gates), 4, rule='C07-D5')
    # the same recognisers slice the segment at the same offsets: instance number (En) and JUMBF type
    slices = {}
    for n in gates:
        fn = prog.fn(n)
        sl = []
        for bi, t in fn.calls():
            if t['fd'].endswith('vec_compare'):
                tt = T.call_term(fn, bi)
                kind = 'type' if 'C2PA_MARKER' in tt else 'instance'
                for a, b2 in re.findall(r'Range\((\d+),(\d+)\)', tt):
                    sl.append((kind, int(a), int(b2)))
        slices[n] = sorted(set(sl))
    allv = list(slices.values())
    for n, sl in sorted(slices.items()):
        others = [v for m, v in slices.items() if m != n]
        maj = max(others, key=others.count) if others else sl
        ctx.ob('C07-D5', n, 'byte ranges compared (instance number, JUMBF type)', 'same in every recogniser', sl == maj, detail='this=%s others=%s' % (sl, maj))
    vals = sorted(set(gates.values()))
    for n, k in sorted(gates.items()):
        others = [v for m, v in gates.items() if m != n]
        maj = max(set(others), key=others.count) if others else k
        ctx.ob('C07-D5', n, 'minimum APP11 segment length gate', 'same in every recogniser (siblings: %s)' % vals, k == maj, detail='this=%d others=%s' % (k, sorted(others)))
