"""Shared links of the verdict chain (DESIGN 4.1): code/kind agreement of log sites."""
import collections
from lib import loc, classify_ret
import logs
from oblig import failing_edge_obligation

# kind-vs-table deviations accepted with a reason (keyed by code + method + function family)
ACCEPTED_DEVIATIONS = {
    # code, method  -> reason
    ('signingCredential.ocsp.notRevoked', 'informational'): 'success-class code logged as informational: harmless direction (cannot create a failure, cannot create Valid)',
    ('ingredient.claimSignature.validated', 'informational'): 'success-class code logged as informational: harmless direction',
    ('signingCredential.ocsp.unknown', 'failure_no_throw'): 'informational-class code logged as Failure: stricter than the table (triaged under C37)',
    ('ingredient.manifest.missing', 'failure'): 'log_kind lists it under Success but both sites log it as Failure: the method wins at run time (stricter)',
    ('ingredient.manifest.missing', 'failure_no_throw'): 'as above',
    ('assertion.notRedacted', 'informational'): 'Reader::with_store post-hoc informational note (dead for the verdict; see C20)',
    ('assertion.missing', 'informational'): 'Reader::with_store post-hoc informational note (dead for the verdict; see C20)',
}


def code_kind_agreement(ctx, prog, rule, code_filter=None, floor=None):
    """At every log site, the kind set by the method must agree with log_kind(CODE); a Failure-class code logged
    through success/informational is acceptable only when an Err return follows on all paths."""
    consts = logs.const_strings(prog)
    lk = logs.log_kind_table(prog, consts)
    if not ctx.require(lk is not None, 'validation_codes::log_kind'):
        return
    table, default = lk
    ctx.floor('log_kind table entries', len(table), 25, rule=rule)
    ctx.ob(rule, 'validation_results::validation_codes::log_kind', 'default arm', 'Failure', default == 'Failure', detail='default kind is %s' % default, nontrivial=False)
    nsites = 0
    vcodes = set(v for k, v in consts.items() if k.startswith('validation_results::validation_codes::'))
    ctx.floor('validation_codes constants', len(vcodes), 97, rule=rule)
    for name in prog.fns():
        fn = prog.fn(name)
        sites = logs.log_sites(prog, fn, consts)
        if not sites:
            continue
        ctx.analysed(name, len(sites))
        for s in sites:
            nsites += 1
            for k, v in s['codes']:
                if k != 'str':
                    continue
                if code_filter and not code_filter(v):
                    continue
                want = table.get(v, default)
                got = {'success': 'Success', 'informational': 'Informational', 'failure': 'Failure'}[s['kind']]
                if want == got:
                    ctx.ob(rule, name, '%s via %s' % (v, s['method']), 'kind agrees with log_kind', True, site=loc(s['span']), nontrivial=False)
                    continue
                if v not in table and not v in vcodes:
                    # not a validation_codes constant (e.g. cawg.* string codes): class unknown to log_kind; see C33
                    continue
                if want == 'Failure' and got != 'Failure' and (v, s['method']) not in ACCEPTED_DEVIATIONS:
                    # acceptable only if every path from this log to function exit returns Err
                    ok = log_followed_by_err(fn, s['bi'])
                    ctx.ob(rule, name, '%s via %s' % (v, s['method']), 'Failure-class code: Err return follows on all paths', ok,
                           detail='' if ok else 'Failure-class code %s is logged as %s at %s and a path continues to a non-Err return' % (v, got, loc(s['span'])),
                           site=loc(s['span']))
                    continue
                reason = ACCEPTED_DEVIATIONS.get((v, s['method']))
                ctx.ob(rule, name, '%s via %s' % (v, s['method']), 'kind agrees with log_kind or tabled deviation', reason is not None,
                       detail=('tabled: ' + reason) if reason else 'code %s has log_kind %s but is logged through %s at %s' % (v, want, s['method'], loc(s['span'])),
                       site=loc(s['span']))
    return nsites


def log_followed_by_err(fn, bi):
    """path-insensitive: every return block reachable from the log block assigns _0 an Err/residual on the way.
    Implemented as: from the log block, explore forward; a `ret` is bad unless the path passed an `_0 = Err(..)`
    aggregate or a from_residual call into _0 after the log."""
    from lib import FROM_RESIDUAL
    start = fn.B[bi]['t']['t']
    if start is None:
        return True
    seen = set()
    work = [(start, False)]
    while work:
        b, e = work.pop()
        if (b, e) in seen:
            continue
        seen.add((b, e))
        blk = fn.B[b]
        for dst, rv in blk['s']:
            if dst['l'] == 0 and not dst['p']:
                e = rv['k'] == 'agg' and rv.get('variant') == 'Err'
        t = blk['t']
        if t['k'] == 'call' and t['dest']['l'] == 0 and not t['dest']['p']:
            e = t['fd'] == FROM_RESIDUAL
        if t['k'] == 'ret':
            if not e:
                return False
            continue
        for s in fn.succs(b):
            work.append((s, e))
    return True
