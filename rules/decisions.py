"""Decision-table agreement: for every Failure-kind log site of a function, the (anonymised) conditions that decide it - the nearest
dominating branch decisions with the edge taken - are compared, as a multiset keyed by status code, with the table confirmed on the
reviewed tree.  Terms are built from resolved callees/constants (no variable names, no positions), so moving or re-ordering code keeps the
table; dropping, inverting or weakening a condition changes it."""
import collections
import json
import os
import re
import logs

TABLES = os.path.join(os.path.dirname(os.path.abspath(__file__)), 'tables')


def anonymise(fn, term):
    names = sorted(set(fn.varnames.values()) | set(fn.upvars.values()), key=len, reverse=True)
    for n in names:
        if len(n) < 2 and n != '_':
            continue
        term = re.sub(r'(?<![A-Za-z0-9_:."])' + re.escape(n) + r'(?![A-Za-z0-9_(:"])', '_', term)
    term = re.sub(r'\b_\d+\b', '_', term)
    return term


def _parse(term):
    """tiny parser of call-shaped terms: returns (head, [args], tail) or None"""
    m = re.match(r'^([!A-Za-z_][\w:<>, \'&]*?)\(', term)
    if not m:
        return None
    head = m.group(1)
    depth, cur, args, i = 0, '', [], len(head) + 1
    while i < len(term):
        ch = term[i]
        if ch in '([{':
            depth += 1
        elif ch in ')]}':
            if depth == 0:
                args.append(cur)
                return head, args, term[i + 1:]
            depth -= 1
        if ch == ',' and depth == 0:
            args.append(cur); cur = ''
        else:
            cur += ch
        i += 1
    return None


SYM = {'eq', 'ne', 'PartialEq::eq', 'PartialEq::ne'}
MIRROR = {'gt': 'lt', 'ge': 'le', 'Gt': 'Lt', 'Ge': 'Le', 'PartialOrd::gt': 'PartialOrd::lt', 'PartialOrd::ge': 'PartialOrd::le'}


def canon_term(term):
    """operand order of symmetric comparisons and the direction of ordered ones are normalised recursively, so that `a == b` / `b == a`
    and `a > b` / `b < a` give the same row"""
    p = _parse(term)
    if not p:
        return term
    head, args, tail = p
    args = [canon_term(a) for a in args]
    h = head.lstrip('!')
    neg = head[:len(head) - len(h)]
    if h in SYM and len(args) == 2:
        args = sorted(args)
    elif h in MIRROR and len(args) == 2:
        h = MIRROR[h]; args = [args[1], args[0]]
    return '%s%s(%s)%s' % (neg, h, ','.join(args), canon_term(tail) if tail.startswith('(') else tail)


NEGATED = {'ne': 'eq', 'PartialEq::ne': 'PartialEq::eq', 'Result::is_err': 'Result::is_ok', 'Option::is_none': 'Option::is_some'}


def canon_decision(term, edges):
    """(term, edge) with negations folded into the edge: `!c -> true` == `c -> false`, `a != b -> true` == `a == b -> false`,
    is_err/is_none likewise.  Only for two-valued switches (edges 0 / 1 / else(0) / else(1))."""
    term = canon_term(term)
    tv = {'0': 'F', 'else(1)': 'F', '1': 'T', 'else(0)': 'T'}
    if edges not in tv:
        return term, edges
    val = tv[edges]
    changed = True
    while changed:
        changed = False
        if term.startswith('!'):
            term = term[1:]; val = 'F' if val == 'T' else 'T'; changed = True
            continue
        p = _parse(term)
        if p and p[0] in NEGATED and not p[2]:
            term = '%s(%s)' % (NEGATED[p[0]], ','.join(p[1])); val = 'F' if val == 'T' else 'T'; changed = True
        elif p and p[0] in ('not', 'Not::not') and len(p[1]) == 1 and not p[2]:
            term = p[1][0]; val = 'F' if val == 'T' else 'T'; changed = True
    return term, val


def clip(term, n=160):
    """long terms are shortened for display but keep a digest of the whole, so a change in the cut-off tail still changes the row"""
    if len(term) <= n:
        return term
    import hashlib
    return term[:n] + '..#' + hashlib.sha1(term.encode()).hexdigest()[:10]


def is_try_switch(fn, d):
    """switch on the ControlFlow discriminant of a `?` (Try::branch): error propagation, not a rule decision"""
    t = fn.B[d]['t']
    if 'l' not in t['d']:
        return False
    for o in fn.origins(t['d']):
        if o[0] == 'discr':
            inner = o[1]
            # origins see through Try::branch; look at the local's defining statement instead
    for df in fn.defs.get(t['d']['l'], ()):
        if df[0] == 'stmt' and df[3]['k'] == 'discr':
            src = df[3]['pl']['l']
            for d2 in fn.defs.get(src, ()):
                if d2[0] == 'call' and d2[2]['fd'] == 'std::ops::Try::branch':
                    return True
    return False


def decisions_for_block(fn, T, L, k=2):
    idom = fn.dominators()
    out = []
    cur = L
    guard = 0
    while cur in idom and cur != 0 and len(out) < k and guard < 400:
        guard += 1
        d = idom[cur]
        if d == cur:
            break
        t = fn.B[d]['t']
        if t['k'] == 'switch':
            # which edge of d leads to L?
            edges = []
            for v, tb in t['ts']:
                if tb == cur or fn.dominates(tb, L):
                    edges.append(str(v))
            if (t['o'] == cur or fn.dominates(t['o'], L)) and not edges:
                edges.append('else(' + ','.join(str(v) for v, _ in t['ts']) + ')')
            if edges and not is_try_switch(fn, d):
                term, edge = canon_decision(anonymise(fn, T.op_term(fn, t['d'])), '|'.join(edges))
                out.append('%s -> %s' % (clip(term), edge))
        cur = d
    return tuple(out)


def incoming_conditions(fn, T, L, limit=6):
    """branch decisions on the edges that lead DIRECTLY into block L (through straight-line blocks): the operands of a disjunction
    `a || (b && c)` guarding L are not dominators of L, but each contributes one incoming edge"""
    preds = fn.preds
    out = set()
    seen = set()
    work = [(L, None)]
    while work and len(seen) < 200:
        b, came_from = work.pop()
        for p in preds.get(b, ()):
            if (p, b) in seen:
                continue
            seen.add((p, b))
            t = fn.B[p]['t']
            if t['k'] == 'switch':
                edges = [str(v) for v, tb in t['ts'] if tb == b]
                if t['o'] == b and not edges:
                    edges.append('else(' + ','.join(str(v) for v, _ in t['ts']) + ')')
                if edges and not is_try_switch(fn, p):
                    term, edge = canon_decision(anonymise(fn, T.op_term(fn, t['d'])), '|'.join(edges))
                    out.add('%s -> %s' % (clip(term), edge))
            elif t['k'] in ('goto', 'call', 'drop', 'assert'):
                # straight-line block (the log_item!() builder chain is a sequence of calls): keep walking to the branch that selected it
                work.append((p, b))
    return tuple(sorted(out))[:limit]


def bool_assignments(fn, T, k=2):
    """multiset of (anonymised rvalue, deciding conditions) for every assignment to a named bool variable (verdict accumulators
    such as `handled_all_critical = false`)"""
    rows = collections.Counter()
    for l, n in fn.varnames.items():
        if fn.local_ty(l) != 'bool' or 1 <= l <= fn.argc:
            continue
        for d in fn.defs.get(l, ()):
            if d[0] == 'stmt':
                term = T._def_term(fn, d, 0, {l})
            elif d[0] == 'call':
                term = T.call_term(fn, d[1])
            else:
                continue
            rows[('bool-assign', (clip(canon_term(anonymise(fn, term))),) + decisions_for_block(fn, T, d[1], k))] += 1
    return rows


def table_of(prog, T, fn, consts, k=2, kinds=('failure',), bools=False):
    rows = collections.Counter()
    if bools:
        rows.update(bool_assignments(fn, T, min(k, 2)))
    for s in logs.log_sites(prog, fn, consts):
        if s['kind'] not in kinds:
            continue
        codes = '/'.join(sorted(v for kk, v in s['codes'] if kk == 'str')) or '?'
        via = incoming_conditions(fn, T, s['bi'])
        rows[(codes, decisions_for_block(fn, T, s['bi'], k) + (('via: ' + ' | '.join(via),) if len(via) > 1 else ()))] += 1
    return rows


def compare(ctx, rule, prog, T, fn, consts, table_name, k=2, bools=False, kinds=('failure',)):
    cur = table_of(prog, T, fn, consts, k, kinds=kinds, bools=bools)
    path = os.path.join(TABLES, table_name + '.json')
    if os.environ.get('VERIF_REGEN_TABLES') == '1':
        json.dump(sorted([[c, list(d), n] for (c, d), n in cur.items()]), open(path, 'w'), indent=1)
    if not os.path.exists(path):
        ctx.ob(rule, fn.name, 'decision table', 'reference table exists', False, detail='missing ' + path)
        return
    ref = collections.Counter()
    for c, d, n in json.load(open(path)):
        ref[(c, tuple(d))] += n
    ctx.floor('decision-table rows for ' + fn.name.split('::')[-1], sum(cur.values()), 1, rule=rule)
    missing = ref - cur
    extra = cur - ref
    for (c, d), n in sorted(missing.items()):
        ctx.ob(rule, fn.name, '%s decided by [%s]' % (('Failure log ' + c) if c != 'bool-assign' else 'verdict flag assignment', ' ; '.join(d)), 'still present (reference table)', False,
               detail='a failure decision confirmed on the reviewed tree is gone or its condition changed (dropped / inverted / weakened); current rows for this code: %s' % [list(dd) for (cc, dd) in cur if cc == c][:3])
    for (c, d), n in sorted(extra.items()):
        ctx.ob(rule, fn.name, '%s decided by [%s]' % (('Failure log ' + c) if c != 'bool-assign' else 'verdict flag assignment', ' ; '.join(d)), 'in the reference table', False,
               detail='new or changed failure decision not in the reviewed table (re-triage and regenerate the table if intended)')
    ctx.ob(rule, fn.name, 'decision table', '%d reference rows matched' % sum((ref & cur).values()), not missing and not extra, nontrivial=True)
