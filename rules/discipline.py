"""E3 result-discipline engine: how is the Result of a call consumed? (flow-insensitive forward def-use)"""
import re
import collections
from lib import FROM_RESIDUAL, TRY_BRANCH, is_result_ty, is_option_ty, ty_head, loc

FOLLOW = {
    'std::future::IntoFuture::into_future', 'std::pin::Pin::<Ptr>::new_unchecked', 'std::pin::Pin::<Ptr>::new', 'std::boxed::Box::<T>::pin',
    'std::future::Future::poll', 'std::result::Result::<T, E>::map_err', 'std::result::Result::<T, E>::inspect_err',
    'std::result::Result::<T, E>::map', 'std::result::Result::<T, E>::and_then', 'std::result::Result::<T, E>::inspect',
    'std::result::Result::<T, E>::or_else', 'std::convert::Into::into', 'std::convert::From::from', 'std::result::Result::<T, E>::as_ref',
    'std::boxed::Box::<T>::new', 'std::result::Result::<T, E>::as_mut', 'std::ops::DerefMut::deref_mut', 'std::ops::Deref::deref',
    'std::pin::Pin::<Ptr>::as_mut',
}
SWALLOW = {
    'std::result::Result::<T, E>::ok': 'ok()', 'std::result::Result::<T, E>::unwrap_or': 'unwrap_or()', 'std::result::Result::<T, E>::unwrap_or_default': 'unwrap_or_default()',
    'std::result::Result::<T, E>::unwrap_or_else': 'unwrap_or_else()', 'std::result::Result::<T, E>::is_ok': 'is_ok()', 'std::result::Result::<T, E>::is_err': 'is_err()',
    'std::result::Result::<T, E>::is_ok_and': 'is_ok_and()', 'std::result::Result::<T, E>::is_err_and': 'is_err_and()', 'std::result::Result::<T, E>::err': 'err()',
    'std::mem::drop': 'drop()', 'std::result::Result::<T, E>::map_or': 'map_or()', 'std::result::Result::<T, E>::map_or_else': 'map_or_else()',
    'std::result::Result::<T, E>::iter': 'iter()', 'std::iter::IntoIterator::into_iter': 'into_iter()',
}
PANIC = {'std::result::Result::<T, E>::unwrap': 'unwrap()', 'std::result::Result::<T, E>::expect': 'expect()'}


def consumers(fn, bi):
    """classify every use of the result of the call at block bi.
    Returns list of (kind, detail, block) with kind in
    propagate | inspect | discard | dropped | stored | passed | panic | other"""
    t = fn.B[bi]['t']
    d = t['dest']
    out = []
    if d['l'] == 0 and not d['p']:
        return [('propagate', 'tail call', bi)]
    if d['p']:
        return [('stored', 'written into a field of ' + fn.local_ty(d['l'])[:60], bi)]
    carriers = {d['l']}
    tuple_fields = set()   # (tuple local, '.k') positions holding the value
    cf = set()       # ControlFlow locals from Try::branch
    residual = set()
    changed = True
    seen_calls = set()
    used = False
    rounds = 0
    while changed and rounds < 30:
        changed = False
        rounds += 1
        for i, b in enumerate(fn.B):
            for si, (dst, rv) in enumerate(b['s']):
                k = rv['k']
                srcs = []
                if k in ('use', 'cast') and 'l' in rv['o']:
                    srcs = [rv['o']]
                elif k in ('ref', 'rawptr'):
                    srcs = [{'l': rv['pl']['l'], 'p': rv['pl']['p']}]
                elif k == 'agg':
                    srcs = [o for o in rv['ops'] if 'l' in o]
                elif k == 'discr':
                    l = rv['pl']['l']
                    if l in carriers and not [p for p in rv['pl']['p'] if p != '*']:
                        ty = fn.local_ty(l)
                        if is_result_ty(ty):
                            key = ('inspect', i)
                            if key not in seen_calls:
                                seen_calls.add(key)
                                out.append(('inspect', 'match/if-let on the Result', i))
                        used = True
                    continue
                for o in srcs:
                    l = o['l']
                    proj = [p for p in o['p'] if p != '*']
                    if not proj and not dst['p'] and k in ('use', 'cast'):
                        for (tl, fk) in list(tuple_fields):
                            if tl == l and (dst['l'], fk) not in tuple_fields:
                                tuple_fields.add((dst['l'], fk)); changed = True
                    if l in cf:
                        if any(p.startswith('as Break') for p in proj):
                            if not dst['p'] and dst['l'] not in residual:
                                residual.add(dst['l']); changed = True
                        continue
                    if l in residual:
                        if not dst['p'] and dst['l'] not in residual:
                            residual.add(dst['l']); changed = True
                        continue
                    if l not in carriers:
                        if proj and (l, proj[0]) in tuple_fields:
                            # reading the value back out of the tuple it was moved into
                            if not dst['p'] and len(proj) == 1 and k in ('use', 'cast', 'ref', 'rawptr'):
                                if dst['l'] == 0:
                                    out.append(('propagate', 'returned', i))
                                elif dst['l'] not in carriers:
                                    carriers.add(dst['l']); changed = True
                        continue
                    used = True
                    if proj and not all(p.startswith('as Ready') or p == '.0' or p.startswith('as Some') for p in proj):
                        # reading inside the Ok/Err payload after a match: covered by 'inspect'
                        if any(p.startswith('as Ok') or p.startswith('as Err') for p in proj):
                            continue
                    if k == 'agg':
                        if rv.get('variant') in ('Ok', 'Err', 'Some', 'Ready') or 'closure' in rv:
                            if 'closure' in rv:
                                continue  # captured by reference into a closure: uses are in the closure
                            if not dst['p'] and dst['l'] not in carriers:
                                carriers.add(dst['l']); changed = True
                            continue
                        if rv.get('tuple') and not dst['p']:
                            idx = [n for n, oo in enumerate(rv['ops']) if 'l' in oo and oo['l'] == l]
                            for n in idx:
                                if (dst['l'], '.%d' % n) not in tuple_fields:
                                    tuple_fields.add((dst['l'], '.%d' % n)); changed = True
                            continue
                        key = ('stored', i, si)
                        if key not in seen_calls:
                            seen_calls.add(key)
                            out.append(('stored', 'moved into aggregate %s' % (rv.get('adt') or 'tuple/array'), i))
                        continue
                    if dst['p']:
                        if dst['l'] == 0:
                            out.append(('propagate', 'returned inside _0', i))
                            continue
                        key = ('stored', i, si)
                        if key not in seen_calls:
                            seen_calls.add(key)
                            out.append(('stored', 'written into a field of ' + fn.local_ty(dst['l'])[:60], i))
                        continue
                    if dst['l'] == 0:
                        key = ('ret', i, si)
                        if key not in seen_calls:
                            seen_calls.add(key)
                            out.append(('propagate', 'returned', i))
                        continue
                    if dst['l'] not in carriers:
                        carriers.add(dst['l']); changed = True
            tt = b['t']
            if tt['k'] != 'call' or i == bi:
                continue
            for ai, a in enumerate(tt['args']):
                if 'l' not in a:
                    continue
                l = a['l']
                if l in residual and tt['fd'] == FROM_RESIDUAL:
                    key = ('resid', i)
                    if key not in seen_calls:
                        seen_calls.add(key)
                        if tt['dest']['l'] == 0 and not tt['dest']['p']:
                            out.append(('propagate', '? operator', i))
                        else:
                            out.append(('other', 'from_residual into a local (try block)', i))
                    continue
                if l not in carriers:
                    continue
                used = True
                fd = tt['fd']
                key = ('call', i, ai)
                if key in seen_calls:
                    continue
                if fd == TRY_BRANCH:
                    seen_calls.add(key)
                    if not tt['dest']['p'] and tt['dest']['l'] not in cf:
                        cf.add(tt['dest']['l']); changed = True
                    continue
                if fd in FOLLOW or (fd.startswith('std::') and fd.endswith('::poll')):
                    seen_calls.add(key)
                    dd = tt['dest']
                    if dd['l'] == 0 and not dd['p']:
                        out.append(('propagate', 'returned via ' + fd.split('::')[-1], i))
                    elif not dd['p'] and dd['l'] not in carriers:
                        carriers.add(dd['l']); changed = True
                    continue
                seen_calls.add(key)
                if fd in SWALLOW:
                    out.append(('discard', SWALLOW[fd], i))
                elif fd in PANIC:
                    out.append(('panic', PANIC[fd], i))
                elif fd in ('std::future::get_context',):
                    pass
                else:
                    out.append(('passed', fd, i))
    if not out and not used:
        out.append(('dropped', 'result never read (`let _ =` / statement expression)', bi))
    elif not out:
        out.append(('other', 'value flows only into untracked places', bi))
    return out


class MayCancel:
    """Set T of functions whose call may return the cancellation error, computed callback-parametrically."""

    CALLS = ('std::ops::FnMut::call_mut', 'std::ops::FnOnce::call_once', 'std::ops::Fn::call')

    def __init__(self, prog, seed='context::Context::check_progress'):
        self.prog = prog
        self.seed = seed
        bodies = prog.bodies
        # param-invoking functions: call FnMut::call_mut on a value derived from one of their own arguments
        self.invokes = {}   # fn -> set(arg indices invoked or forwarded)
        for name in prog.fns():
            fn = prog.fn(name)
            idx = set()
            for bi, t in fn.calls():
                if t['fd'] in self.CALLS and t['args']:
                    for o in fn.origins(t['args'][0]):
                        if o[0] == 'arg':
                            idx.add(o[1])
                        elif o[0] == 'field' and o[1][0] == 'arg':
                            idx.add(o[1][1])
            if idx:
                self.invokes[name] = idx
        # forwarding: f passes its own param to g's invoked param
        changed = True
        while changed:
            changed = False
            for name in prog.fns():
                fn = prog.fn(name)
                for bi, t in fn.calls():
                    for tgt in prog.callee_targets(t):
                        inv = self.invokes.get(tgt)
                        if not inv:
                            continue
                        for ai, a in enumerate(t['args']):
                            if (ai + 1) in inv and 'l' in a:
                                for o in fn.origins(a):
                                    pa = None
                                    if o[0] == 'arg':
                                        pa = o[1]
                                    elif o[0] == 'field' and o[1][0] == 'arg':
                                        pa = o[1][1]
                                    if pa is not None and fn.d['kind'] != 'closure':
                                        s = self.invokes.setdefault(name, set())
                                        if pa not in s:
                                            s.add(pa); changed = True
        self.live = {}      # fn -> parameter indices that receive a may-cancel callback at some call site (directly or forwarded)
        self._fix_T()
        # live callback parameters: inside a callback-parametric function the forwarded / invoked callback may cancel when some caller passes one that can
        changed = True
        while changed:
            changed = False
            for name in prog.fns():
                fn = prog.fn(name)
                for bi, t in fn.calls():
                    for tgt in prog.callee_targets(t):
                        inv = self.invokes.get(tgt)
                        if not inv:
                            continue
                        for ai, a in enumerate(t['args']):
                            if (ai + 1) not in inv or 'l' not in a:
                                continue
                            ld = fn.locals[a['l']]
                            cands = set(x for x in [ld.get('closure') or ld.get('fnitem_d')] if x)
                            fwd = set()
                            for o in fn.origins(a):
                                if o[0] == 'agg':
                                    rv = fn.B[o[1]]['s'][o[2]][1]
                                    if 'closure' in rv:
                                        cands.add(rv['closure'])
                                if o[0] == 'arg':
                                    fwd.add(o[1])
                                elif o[0] == 'field' and o[1][0] == 'arg':
                                    fwd.add(o[1][1])
                            if any(c in self.T for c in cands) or any(p in self.live.get(name, ()) for p in fwd):
                                sl = self.live.setdefault(tgt, set())
                                if (ai + 1) not in sl:
                                    sl.add(ai + 1); changed = True
        self._fix_T()

    def _fix_T(self):
        prog, seed = self.prog, self.seed
        # T: fixed point
        if not hasattr(self, 'T'):
            self.T = {seed}
            self.why = {seed: 'seed'}
        changed = True
        while changed:
            changed = False
            for name in prog.fns():
                if name in self.T:
                    continue
                fn = prog.fn(name)
                hit = None
                phit = None
                for bi, t in fn.calls():
                    if self.site_may_cancel(fn, bi, t):
                        if self._reason == 'own':
                            hit = (bi, t['fd'])
                            break
                        phit = phit or 'param'
                if hit is None and phit:
                    hit = 'param'
                if hit is None and fn.d['kind'] in ('fn', 'assoc') and len(fn.B) == 1:
                    # async fn shell: returns its coroutine
                    for dst, rv in fn.B[0]['s']:
                        if rv['k'] == 'agg' and rv.get('closure') in self.T and dst['l'] == 0:
                            hit = (0, rv['closure'])
                if hit is not None:
                    self.T.add(name)
                    self.why[name] = hit
                    changed = True

    def closure_args(self, fn, t):
        out = []
        for a in t['args']:
            if 'l' in a:
                ld = fn.locals[a['l']]
                c = ld.get('closure') or ld.get('fnitem_d')
                if c:
                    out.append(c)
            if 'fd' in a:
                out.append(a['fd'])
        return out

    def site_may_cancel(self, fn, bi, t):
        """is the call at this site able to yield the cancellation error?  (self._reason: 'param' when only through the enclosing function's own
        callback parameter, 'own' otherwise)"""
        self._reason = 'own'
        tg = self.prog.callee_targets(t)
        for g in tg:
            if g in self.T and g not in self.invokes:
                return True
            if g in self.invokes:
                # may-cancel iff a closure passed in an invoked position is in T, or the caller forwards its own param
                inv = self.invokes[g]
                for ai, a in enumerate(t['args']):
                    if (ai + 1) not in inv or 'l' not in a:
                        continue
                    ld = fn.locals[a['l']]
                    cands = set()
                    c = ld.get('closure') or ld.get('fnitem_d')
                    if c:
                        cands.add(c)
                    for o in fn.origins(a):
                        if o[0] == 'agg':
                            rv = fn.B[o[1]]['s'][o[2]][1]
                            if 'closure' in rv:
                                cands.add(rv['closure'])
                        if o[0] in ('arg',) or (o[0] == 'field' and o[1][0] == 'arg'):
                            # forwarding own parameter: may cancel when some caller of this function passes a may-cancel callback in that position
                            pa = o[1] if o[0] == 'arg' else o[1][1]
                            if pa in self.live.get(fn.name, ()):
                                self._reason = 'param'
                                return True
                    if any(c in self.T for c in cands):
                        return True
                if g in self.T and not inv:
                    return True
                # g reaches the seed by itself (not only through its parameter)?
                if g in self.T and self.why.get(g) and self.why[g] != 'param':
                    w = self.why[g]
                    if isinstance(w, tuple) and w[1] not in self.CALLS:
                        return True
        if not tg and t['fd'] in self.CALLS and t['args'] and 'l' in t['args'][0]:
            for o in fn.origins(t['args'][0]):
                pa = o[1] if o[0] == 'arg' else (o[1][1] if (o[0] == 'field' and o[1][0] == 'arg') else None)
                if pa is not None and pa in self.live.get(fn.name, ()):
                    self._reason = 'param'
                    return True
        if not tg and t['fd'] in self.CALLS and t['args']:
            # invoking a closure value: local closure in T?
            ld = fn.locals[t['args'][0]['l']] if 'l' in t['args'][0] else {}
            c = ld.get('closure')
            if c and c in self.T:
                return True
        if not tg:
            # std higher-order function receiving a may-cancel closure (map, and_then, ...): the call may cancel
            for c in self.closure_args(fn, t):
                if c in self.T and t['fd'] not in ('std::sync::OnceLock::<T>::get_or_init',):
                    return True
        return False
