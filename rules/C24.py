"""C24 Contexts are isolated and safe to share across threads."""
import re
from lib import loc, rv_operands, strip_ty
from terms import Terms

EXPLANATION = ("Whole-workspace inventories over type-resolved facts: every static / thread_local / lazy item of c2pa, c2pa_c_ffi and c2patool is "
               "classified against a frozen table (immutable-after-init vs mutable) and any new or re-typed item is reported; the writers of the one "
               "mutable SDK global (the legacy thread-local SETTINGS) are enumerated from MIR and must not be reachable in the resolved call graph from "
               "the non-deprecated Settings/Context/Builder/Reader API; Context's cancellation methods touch only self.cancel_flag (an AtomicBool by value) "
               "and Context has no Clone impl. The settings-derived cache coherence clause is checked under C26-D6. Decides the absence of shared hidden "
               "state, not the equality of concurrent and sequential results.")
RULE = "obligation = one static item / one (entry point, writer) reachability query / one field access in the cancellation methods"

IMMUTABLE_WRAPPERS = ('lazy_static::lazy::Lazy<', 'std::sync::LazyLock<', 'std::sync::OnceLock<')
INTERIOR = re.compile(r'Mutex|RwLock|RefCell|Cell<|Atomic|UnsafeCell|OnceLock<|LazyLock<|lazy::Lazy<')
# non-Freeze statics: name regex -> (class, reason)
TABLE = [
    (r'^<assertions::metadata::(ALLOWED_SCHEMAS|BACKCOMPAT_LIST) as std::ops::Deref>::deref::__stability::LAZY$', 'immutable', 'lazy_static lookup table'),
    (r'^<jumbf_io::(CAI_READERS|CAI_WRITERS|CONTAINER_MAP|HANDLER_PROTOTYPES) as std::ops::Deref>::deref::__stability::LAZY$', 'immutable', 'lazy_static handler tables'),
    (r'^assertions::labels::(METADATA_LABEL_REGEX|parse_label::VERSION_RE)$', 'immutable', 'LazyLock<Regex>'),
    (r'^identity::claim_aggregation::w3c_vc::did::VALID_DID$', 'immutable', 'LazyLock<Regex>'),
    (r'^identity::identity_assertion::signer_payload::ABSOLUTE_URL_PREFIX$', 'immutable', 'LazyLock<Regex>'),
    (r'^http::reqwest::async_impl::ASYNC_CLIENT(_REDIRECTS)?$', 'immutable', 'OnceLock<reqwest::Client> (shared HTTP client, no SDK state)'),
    (r'^settings::SETTINGS::\{constant#0\}::\{closure#[01]\}::__RUST_STD_INTERNAL_VAL$', 'mutable', 'legacy thread-local settings (writers checked by D2)'),
    (r'^cimpl::cimpl_error::LAST_ERROR::\{constant#0\}::\{closure#[01]\}::__RUST_STD_INTERNAL_VAL$', 'mutable', 'C API per-thread last error'),
    (r'^cimpl::utils::get_registry::REGISTRY$', 'mutable', 'C API pointer registry (Mutex inside; C31)'),
]
NEW_API = [r'^settings::Settings::(new|with_json|with_toml|with_file|with_value|set_value|get_value|update_from_str)$', r'^settings::builder::',
           r'^context::Context::', r'^builder::Builder::', r'^reader::Reader::']


def run(ctx):
    facts = ctx.facts
    nst = 0
    for crate in ('c2pa', 'c2pa_c', 'c2patool.bin'):
        cr = facts.crate(crate)
        for name, s in sorted(cr['statics'].items()):
            nst += 1
            if s['freeze'] and not s['mut']:
                ctx.ob('C24-D1', name, 'static item', 'Freeze and not mut (plain immutable data)', True, site=loc(s['span']), nontrivial=False)
                continue
            row = None
            for pat, cls, why in TABLE:
                if re.search(pat, name):
                    row = (cls, why)
            if row is None:
                ctx.ob('C24-D1', name, 'static item with interior mutability', 'listed in the global-state table', False,
                       detail='new global state `%s: %s` (%s) in crate %s is not classified' % (name, s['ty'][:80], 'static mut' if s['mut'] else 'interior mutability', crate), site=loc(s['span']))
                continue
            ok = True
            det = row[1]
            if row[0] == 'immutable':
                ty = s['ty']
                w = [x for x in IMMUTABLE_WRAPPERS if ty.startswith(x)]
                inner = ty[len(w[0]):] if w else ty
                # the payload must not itself carry interior mutability (reqwest::Client is tabled as opaque)
                if not w or (INTERIOR.search(inner) and 'reqwest::Client' not in inner):
                    ok = False
                    det = 'tabled as immutable-after-init but its type is now %s' % ty[:100]
                if s['mut']:
                    ok = False
            ctx.ob('C24-D1', name, 'static item', 'table class: ' + row[0], ok, detail=det, site=loc(s['span']))
    ctx.floor('static items in the workspace', nst, 50, rule='C24-D1')

    prog = ctx.prog(('c2pa',))
    T = Terms(prog)
    # ---- D2 writers of SETTINGS
    writers, readers = set(), set()
    for name in prog.fns():
        fn = prog.fn(name)
        refs = False
        for b in fn.B:
            ops = []
            for dst, rv in b['s']:
                ops += rv_operands(rv)
            if b['t']['k'] == 'call':
                ops += b['t']['args']
            for o in ops:
                if o.get('item') == 'settings::SETTINGS' or o.get('static') == 'settings::SETTINGS':
                    refs = True
        if not refs or name.startswith('settings::SETTINGS::'):
            continue
        w = False
        for bi, t in fn.calls():
            if 'LocalKey' in t['fd']:
                m = t['fd'].split('::')[-1]
                if m in ('set', 'replace', 'take', 'with_borrow_mut') or (m == 'with'):
                    w = True
        (writers if w else readers).add(name)
    ctx.floor('functions writing the thread-local SETTINGS', len(writers), 3, rule='C24-D2')
    ctx.note('SETTINGS writers: %s ; readers: %s' % (sorted(writers), sorted(readers)))
    for wname in sorted(writers):
        d = prog.bodies[wname]
        legacy = bool(d.get('deprecated')) or wname in ('settings::Settings::set_thread_local_value', 'settings::Settings::reset')
        ctx.ob('C24-D2', wname, 'writes thread-local SETTINGS', 'is a deprecated/legacy shim', legacy, detail='', site=loc(d['span']))
    entries = [n for n in prog.fns() if any(re.search(p, n) for p in NEW_API) and '{closure' not in n
               and prog.bodies[n].get('vis') == 'pub' and not prog.bodies[n].get('deprecated')]
    ctx.floor('non-deprecated public entry points checked', len(entries), 100, rule='C24-D2')
    # a non-deprecated entry point that reaches a writer -- also through a deprecated shim -- makes the new API depend on per-thread state
    stop = set(n for n in prog.fns() if prog.bodies[n].get('deprecated'))
    bad = 0
    for e in entries:
        reach, parent = prog.reach_from([e])
        hit = reach & writers
        ctx.analysed(e, 0)
        if hit:
            bad += 1
            w = sorted(hit)[0]
            ctx.ob('C24-D2', e, 'reaches a writer of thread-local SETTINGS', 'never', False,
                   detail='call path: ' + ' -> '.join(x.split('::')[-1] for x in prog.path_to(parent, w)), site=loc(prog.bodies[e]['span']))
    ctx.ob('C24-D2', '-', 'new-API entry points reaching SETTINGS writers', '0 of %d' % len(entries), bad == 0, detail='%d entry points' % bad)
    # readers: who-may-call table of the thread-local getters. Besides the deprecated context-less constructors (and their
    # async coroutines), only the tabled functions may read the calling thread's legacy settings.
    READER_ALLOWED = {
        'store::Store::from_jumbf': 'legacy loader used by BmffIO update-manifest handling; reads only core.max_decompressed_manifest_size_in_mb',
        'settings::signer::SignerSettings::signer': 'legacy Settings::signer() accessor (deprecated API surface)',
    }
    nrd = 0
    for r in sorted(readers):
        for c in sorted(prog.rcg.get(r, ())):
            nrd += 1
            base = re.sub(r'(::\{closure#\d+\})+$', '', c)
            dep = bool(prog.bodies.get(c, {}).get('deprecated') or prog.bodies.get(base, {}).get('deprecated') or prog.bodies.get(base[:-6] if base.endswith('_async') else base, {}).get('deprecated'))
            why = 'deprecated context-less API' if dep else READER_ALLOWED.get(base)
            ctx.ob('C24-D2', c, 'reads the legacy thread-local SETTINGS via ' + r.split('::')[-1], 'deprecated API or tabled reader', why is not None,
                   detail=('allowed: ' + why) if why else 'a non-deprecated code path takes settings from the calling thread instead of its Context: results depend on legacy per-thread state', site=loc(prog.bodies[c]['span']))
    ctx.floor('direct callers of thread-local settings getters', nrd, 10, rule='C24-D2')
    # ---- D3 per-context cancellation
    cadt = prog.adts.get('context::Context')
    if ctx.require(cadt is not None, 'context::Context (adt)'):
        fty = {f[0]: f[1] for f in cadt['variants'][0]['fields']}
        ctx.ob('C24-D3', 'context::Context', 'field cancel_flag', 'AtomicBool by value (per instance)', fty.get('cancel_flag') in ('std::sync::atomic::AtomicBool', 'std::sync::atomic::Atomic<bool>'),
               detail='type is %s' % fty.get('cancel_flag'))
        clone = [im for im in prog.impls if im['trait'] == 'std::clone::Clone' and im['self_ty'] == 'context::Context']
        ctx.ob('C24-D3', 'context::Context', 'impl Clone', 'absent (a context cannot be duplicated with shared flags)', not clone)
    for m in ('context::Context::cancel', 'context::Context::is_cancelled', 'context::Context::check_progress'):
        if not ctx.require(prog.has(m), m):
            continue
        fn = prog.fn(m)
        ctx.analysed(m, len(list(fn.calls())))
        n = 0
        for bi, t in fn.calls():
            if 'atomic::Atomic' in t['fd']:
                n += 1
                term = T.op_term(fn, t['args'][0])
                ctx.ob('C24-D3', m, t['fd'].split('::')[-1], 'receiver is self.cancel_flag', term == 'self.cancel_flag', detail='receiver: ' + term, site=loc(t['span']))
        ctx.ob('C24-D3', m, 'atomic accesses', '>= 1', n >= 1)
        # no static is read
        st = []
        for b in fn.B:
            ops = []
            for dst, rv in b['s']:
                ops += rv_operands(rv)
            if b['t']['k'] == 'call':
                ops += b['t']['args']
            for o in ops:
                if o.get('static'):
                    st.append(o['static'])
        ctx.ob('C24-D3', m, 'static items referenced', 'none', not [x for x in st if 'log::' not in x and 'STATIC_MAX_LEVEL' not in x], detail=str(st[:4]))
    # ---- D5 process-wide once-initialised cells: a static OnceLock/OnceCell shared by several call sites must be initialised the same way at each of
    # them; two different initialisers for one cell make the configuration of every later context depend on which context ran first in the process
    cells = {}
    for name in prog.fns():
        f2 = prog.fn(name)
        for bi, t in f2.calls():
            if not re.search(r'::get_or_init$|::get_or_try_init$', t['fd']) or not t['args']:
                continue
            a0 = T.op_term(f2, t['args'][0])
            m = re.match(r'^\{(alloc\d+): &std::sync::(OnceLock|LazyLock)|^\{(alloc\d+): &(std|core)::cell::OnceCell', a0)
            if not m:
                continue        # a cell owned by a value (e.g. a field of Context), not a process-wide static
            key = m.group(1) or m.group(3)
            init = [(f2.locals[a['l']].get('closure') if 'l' in a else None) or T.op_term(f2, a) for a in t['args'][1:]]
            cells.setdefault(key, []).append((name, tuple(init), loc(t['span'])))
    ctx.floor('static once-cells with get_or_init sites', len(cells), 2, rule='C24-D5')
    for key, sites in sorted(cells.items()):
        fns = sorted(set(n_ for n_, _i, _s in sites))
        ctx.ob('C24-D5', ' / '.join(x.split('::')[-1] for x in fns), 'static once-cell', 'initialised by one function only (a cell per configuration)', len(fns) == 1,
               detail='the same static cell is initialised from: %s' % [(n_.split('::')[-1], i[0][-40:] if i else '') for n_, i, _s in sites], site=sites[0][2])

