"""C30 Remote manifest reference through XMP: escape/unescape pairing, key agreement, handler capability agreement, existing XMP is the input."""
import re
from lib import loc
from terms import Terms
import oblig

EXPLANATION = ("Writer/reader agreement rules on MIR. (D1) add_xmp_key inserts the value through quick_xml's BytesStart::push_attribute with a (&str,&str) argument (the escaping "
               "constructor; (&[u8],&[u8]) and Attribute{..} are raw) and copies all other attributes with extend_attributes; extract_xmp_key's attribute arm returns the value "
               "only through an unescaping call (escape::unescape / unescape_value / decode_and_unescape_value), the raw fallback being reachable only after that call: the two "
               "classes must agree. (D2) extract_provenance and add_provenance name the same key constant, and add_provenance's value argument is the caller's URL. (D3) every "
               "RemoteRefEmbed implementation's Xmp arm reaches add_provenance with the caller's reference, the same type implements CAIReader::read_xmp with a non-constant "
               "body and advertises itself in remote_ref_writer_ref; XmpInfo::from_source feeds read_xmp's result to extract_provenance. (D4) the XMP handed to add_provenance is the "
               "asset's existing XMP (MIN_XMP only on the None edge of that read), and add_xmp_key writes every event it does not rewrite. URL normalisation and the "
               "byte-level container encodings are not decided.")
RULE = "obligation = (writer site class, reader site class) / (handler, capability) / (call site, argument origin)"
X = 'utils::xmp_inmemory_utils::'
UNESC = re.compile(r'\b(unescape|unescape_value|decode_and_unescape_value|unescape_with|decode_and_unescape_value_with)\(')
HANDLER_FLOOR = 10


def run(ctx):
    prog = ctx.prog(('c2pa',))
    T = Terms(prog)
    # ---- D1 writer class
    wname, rname = X + 'add_xmp_key', X + 'extract_xmp_key'
    if not (ctx.require(prog.has(wname), wname) and ctx.require(prog.has(rname), rname)):
        return
    w = prog.fn(wname)
    ctx.analysed(wname, len(list(w.calls())))
    pa = [(bi, t) for bi, t in w.calls() if t['fd'].endswith('::push_attribute')]
    ctx.floor('push_attribute sites in add_xmp_key', len(pa), 4, rule='C30-D1')
    wclass = set()
    for bi, t in pa:
        at = (t.get('at') or ['', ''])[1]
        cls = 'escaping' if re.fullmatch(r"\(&'?\S* ?str, &'?\S* ?str\)", at) else 'raw'
        wclass.add(cls)
        term = T.call_term(w, bi)
        ctx.ob('C30-D1', wname, 'push_attribute', 'value argument is the function\'s key/value parameters', re.search(r'\(key,value\)\)?$', term.replace(' ', '')) is not None or 'key' in term and 'value' in term, detail=term[:120], site=loc(t.get('span')), nontrivial=False)
    raw_attr = [bi for bi, b in enumerate(w.B) for dst, rv in b['s'] if rv['k'] == 'agg' and 'Attribute' in str(rv.get('adt') or rv.get('ty') or '')]
    if raw_attr:
        wclass.add('raw')
    ctx.ob('C30-D1', wname, 'value insertion', 'one constructor class at all sites', len(wclass) == 1, detail=str(sorted(wclass)))
    # ---- D1 reader class
    r = prog.fn(rname)
    ctx.analysed(rname, len(list(r.calls())))
    attr_rets, tag_rets = [], []
    for bi, b in enumerate(r.B):
        for dst, rv in b['s']:
            if dst['l'] == 0 and not dst['p'] and rv['k'] == 'agg' and rv.get('variant') == 'Some':
                terms = set()
                for o in rv['ops']:
                    for og in r.origins(o):
                        terms.add(T.origin_term(r, og)[0])
                if any('attributes(' in x for x in terms):
                    attr_rets.append((bi, terms))
                else:
                    tag_rets.append((bi, terms))
    ctx.ob('C30-D1', rname, 'attribute-arm return', 'exists', len(attr_rets) >= 1, detail=str(len(attr_rets)), nontrivial=False)
    un_calls = set(bi for bi, t in r.calls() if UNESC.search(short_call(t['fd']) + '('))
    rclass = set()
    for bi, terms in attr_rets:
        has = any(UNESC.search(x) for x in terms)
        rclass.add('unescaping' if has else 'raw')
        if has:
            # the raw fallback is only reachable after the unescape call
            oblig.must_pass_through(ctx, 'C30-D1', r, lambda b2, blk, _b=bi: b2 == _b, lambda b2, blk, _u=un_calls: b2 in _u, 'return of the attribute value', 'unescape(value)')
    want = {'escaping': 'unescaping', 'raw': 'raw'}
    ctx.ob('C30-D1', rname, 'attribute value read back', 'reader class matches writer class (escaping constructor <-> unescape; raw <-> raw)',
           len(wclass) == 1 and rclass == {want[next(iter(wclass))]}, detail='writer=%s reader=%s' % (sorted(wclass), sorted(rclass)), site=loc(r.d['span']))
    # ---- D2 key agreement
    keys = {}
    for name, callee in ((X + 'extract_provenance', 'extract_xmp_key'), (X + 'add_provenance', 'add_xmp_key')):
        if not ctx.require(prog.has(name), name):
            continue
        fn = prog.fn(name)
        ctx.analysed(name, len(list(fn.calls())))
        ks = []
        for bi, t in fn.calls():
            if t['fd'].endswith('::' + callee):
                term = T.call_term(fn, bi)
                m = re.findall(r'"([^"]*)"', term)
                ks.append((m, term))
        keys[name] = ks
    ek = [m[0] for m, _t in keys.get(X + 'extract_provenance', []) if m]
    ak = [re.search(r'"([^"]*)",provenance\)$', term).group(1) for m, term in keys.get(X + 'add_provenance', []) if re.search(r'"([^"]*)",provenance\)$', term)]
    ctx.ob('C30-D2', X + 'add_provenance', 'key written with the caller\'s URL', 'equals the key extract_provenance reads', len(ek) == 1 and ak == ek, detail='read=%s write=%s' % (ek, ak))
    ns = [m for m, term in keys.get(X + 'add_provenance', []) if len(m) == 2 and not re.search(r',provenance\)$', term)]
    if ek:
        prefix = ek[0].split(':')[0]
        ctx.ob('C30-D2', X + 'add_provenance', 'namespace declaration', 'xmlns:<prefix> of the provenance key is added', any(m[0] == 'xmlns:' + prefix for m in ns), detail=str(ns))
    # XmpInfo::from_source: read_xmp -> extract_provenance
    fs = X + 'XmpInfo::from_source'
    if ctx.require(prog.has(fs), fs):
        fn = prog.fn(fs)
        ctx.analysed(fs, len(list(fn.calls())))
        terms = ' ; '.join(T.call_term(fn, bi) for bi, t in fn.calls())
        ctx.ob('C30-D2', fs, 'provenance', 'extract_provenance applied to the handler\'s read_xmp result', re.search(r'and_then\[?[^;]*extract_provenance|extract_provenance\([^;]*read_xmp', terms) is not None, detail=terms[:300])
    # ---- D3 / D4 handlers
    impls = [im for im in prog.impls if im['trait'].endswith('RemoteRefEmbed')]
    ctx.floor('RemoteRefEmbed implementations', len(impls), HANDLER_FLOOR, rule='C30-D3')
    addp = X + 'add_provenance'
    readers = dict((im['self_ty'], im) for im in prog.impls if im['trait'].endswith('asset_io::CAIReader'))
    asset_ios = dict((im['self_ty'], im) for im in prog.impls if im['trait'].endswith('asset_io::AssetIO'))
    for im in sorted(impls, key=lambda i: i['self_ty']):
        ty = im['self_ty']
        name = '<%s as asset_io::RemoteRefEmbed>::embed_reference_to_stream' % ty
        if not ctx.require(prog.has(name), name):
            continue
        fn = prog.fn(name)
        ctx.analysed(name, len(list(fn.calls())))
        reach, _par = prog.reach_from([name])
        ctx.ob('C30-D3', name, 'Xmp reference', 'reaches add_provenance', addp in reach, site=loc(fn.d['span']))
        # capability agreement
        rn = '<%s as asset_io::CAIReader>::read_xmp' % ty
        ok_r = prog.has(rn)
        const_none = False
        if ok_r:
            rf = prog.fn(rn)
            const_none = not list(rf.calls())
        ctx.ob('C30-D3', ty, 'handler with a reference writer', 'implements read_xmp with a real body (the reader can find what the writer embeds)', ok_r and not const_none, detail=rn)
        an = '<%s as asset_io::AssetIO>::remote_ref_writer_ref' % ty
        if ctx.require(prog.has(an), an):
            af = prog.fn(an)
            some = any(rv['k'] == 'agg' and rv.get('variant') == 'Some' for b in af.B for dst, rv in b['s'])
            ctx.ob('C30-D3', ty, 'remote_ref_writer_ref', 'returns Some(self)', some)
        # D4: the add_provenance input is the existing XMP
        sites = []
        for n2 in sorted(reach):
            if not prog.has(n2) or 'xmp_inmemory_utils' in n2:
                continue
            f2 = prog.fn(n2)
            for bi, t in f2.calls():
                if t['fd'].endswith('xmp_inmemory_utils::add_provenance'):
                    sites.append((f2, bi, t))
        for f2, bi, t in sites:
            org = set(T.origin_term(f2, o)[0] for o in f2.origins(t['args'][0]))
            term = T.call_term(f2, bi)
            existing = [x for x in org if not re.fullmatch(r'(utils::xmp_inmemory_utils::)?MIN_XMP', x)]
            if existing:
                ok = all(re.search(r'xmp', x, re.I) for x in existing) or re.search(r'xmp', T.op_term(f2, t['args'][0]), re.I) is not None
                ctx.ob('C30-D4', f2.name, 'add_provenance input', 'the XMP already present in the asset (MIN_XMP only as the absent-case default)', ok, detail='; '.join(sorted(x[:120] for x in org))[:400], site=loc(t.get('span')))
            else:
                # constant MIN_XMP: must be on the absent edge of an existing-XMP read, i.e. another add_provenance site with the existing XMP exists in this function
                others = [1 for f3, b3, t3 in sites if f3 is f2 and b3 != bi and any(not re.fullmatch(r'(utils::xmp_inmemory_utils::)?MIN_XMP', T.origin_term(f3, o)[0]) for o in f3.origins(t3['args'][0]))]
                ctx.ob('C30-D4', f2.name, 'add_provenance(MIN_XMP, ..)', 'paired with a site that updates the existing XMP (fresh packet only when none exists)', bool(others), site=loc(t.get('span')))
            # the value argument is the caller's reference
            v = T.op_term(f2, t['args'][1])
            ctx.ob('C30-D3', f2.name, 'add_provenance value', 'exactly the caller\'s reference, not transformed (add_xmp_key does the escaping)', re.fullmatch(r'embed_ref\.Xmp\.0|url|manifest_uri', v) is not None, detail=v[:100], site=loc(t.get('span')))
    # add_xmp_key preserves what it does not rewrite: the catch-all arm writes the event unchanged and other attributes are copied
    ext = [bi for bi, t in w.calls() if t['fd'].endswith('::extend_attributes')]
    we = [bi for bi, t in w.calls() if t['fd'].endswith('::write_event')]
    ctx.ob('C30-D4', wname, 'other attributes of rdf:Description', 'copied with extend_attributes in both element arms', len(ext) >= 2, detail=str(len(ext)))
    passthrough = [bi for bi in we if re.search(r'write_event\([^,]*,(event|e|read_event)', T.call_term(w, bi).replace(' ', '')) or 'read_event' in T.call_term(w, bi)]
    ctx.ob('C30-D4', wname, 'events other than rdf:Description', 'written through unchanged', len(we) >= 3 and bool(passthrough), detail='; '.join(T.call_term(w, bi)[:80] for bi in we)[:300])


def short_call(fd):
    return fd.split('::')[-1]
