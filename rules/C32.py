"""C32 c2patool never clobbers outputs (overwrite clause) and re-reads what it signed."""
import re
from lib import CallGuard, loc
from terms import Terms
import oblig
from oblig import TermGuard

EXPLANATION = ("Guarded-destructive-sink rule over the MIR of c2patool's main(): every call that creates, replaces or deletes something at a path derived from the --output "
               "argument (File::create, fs::write, remove_file, remove_dir_all, copy, NamedTempFile::persist, Builder::sign_file(.., dest), Reader::to_folder(dest), "
               "sign_fragmented(.., dest), create_dir_all) must be reachable only with `<that path>.exists() = false` or `--force = true` established on the path, or lie "
               "after the create_dir_all(&output) of a directory this run created under that guard; removals additionally need --force; after signing the tool re-reads the "
               "output with Reader::with_file. Validity of the produced files is not decided.")
RULE = "obligation = (destructive sink in main, exists/force guard)"
MAIN = 'main'
SINK = re.compile(r'^std::fs::(File::create|write|remove_file|remove_dir_all|copy|rename|create_dir_all)$|^std::fs::File::create$|NamedTempFile.*::persist$|c2pa::Builder::sign_file$|c2pa::Reader::to_folder$|^sign_fragmented$')
REMOVE = re.compile(r'remove_file$|remove_dir_all$')


def run(ctx):
    prog = ctx.prog(('c2patool.bin',))
    T = Terms(prog)
    if not ctx.require(prog.has(MAIN), 'c2patool main'):
        return
    fn = prog.fn(MAIN)
    ctx.analysed(MAIN, len(list(fn.calls())))
    OUT = r'Parser::parse\(\)\.output\.Some\.0|\boutput\b'
    g_force = TermGuard(T, r'Parser::parse\(\)\.force$|args\.force$', 'true', name='--force = true')
    nsink = 0
    # the directory-created-by-this-run region: blocks dominated by create_dir_all(&output) that itself is guarded
    mk = [bi for bi, t in fn.calls() if t['fd'] == 'std::fs::create_dir_all' and re.search(OUT, T.op_term(fn, t['args'][0])) and 'parent' not in T.op_term(fn, t['args'][0]).lower()]
    for bi, t in fn.calls():
        if not SINK.search(t['fd']):
            continue
        terms = [T.op_term(fn, a) for a in t['args']]
        # destination operand: last path-like argument mentioning output
        dst = [x for x in terms if re.search(OUT, x)]
        if not dst:
            continue
        nsink += 1
        d = dst[-1]
        derived = re.search(r'with_extension|Path::join', d) is not None
        in_created_dir = 'Path::join' in d and any(fn.dominates(m, bi) for m in mk)
        name = '%s(%s)' % ('::'.join(t['fd'].split('::')[-2:]), d[:60])
        if in_created_dir:
            ctx.ob('C32-D1', MAIN, name, 'inside the output directory created by this run (create_dir_all under the exists/force guard)', True, site=loc(t['span']))
            continue
        if 'with_extension' in d:
            # the test must be made on the very path that is written (same path expression), not on a look-alike derived from another path
            ex = CallGuard(r'Path::exists$', 'false', argpred=lambda f, b2, t2, _d=d: _d in T.call_term(f, b2), name='<sidecar path>.exists() = false (same path as the sink)')
        else:
            ex = CallGuard(r'Path::exists$', 'false', argpred=lambda f, b2, t2: bool(re.search(OUT, T.call_term(f, b2))) and 'with_extension' not in T.call_term(f, b2), name='output.exists() = false')
        guards = [g_force] if REMOVE.search(t['fd']) else [ex, g_force]
        oblig.effect_requires(ctx, 'C32-D2' if REMOVE.search(t['fd']) else 'C32-D1', fn, name, lambda b2, blk, _bi=bi: b2 == _bi, guards)
    ctx.floor('destructive sinks on --output derived paths', nsink, 10, rule='C32-D1')
    # D3 re-read after signing
    sf = [bi for bi, t in fn.calls() if t['fd'] in ('c2pa::Builder::sign_file', 'c2pa::Builder::sign')]
    wf = set(bi for bi, t in fn.calls() if t['fd'].endswith('Reader::with_file') and re.search(OUT, ' '.join(T.op_term(fn, a) for a in t['args'])))
    ctx.ob('C32-D3', MAIN, 'Reader::with_file(&output) after signing', 'present', bool(wf) and bool(sf))
    pr = [bi for bi, t in fn.calls() if t['fd'] == 'print_reader']
    for s in sf:
        nxt = fn.B[s]['t']['t']
        # every path from the signing call to a normal return passes the re-read (errors returned with ? are fine)
        reach = fn.reachable(nxt, avoid=wf) if nxt is not None else set()
        okrets = [b for b in reach if any(dst['l'] == 0 and rv['k'] == 'agg' and rv.get('variant') == 'Ok' for dst, rv in fn.B[b]['s'])]
        ctx.ob('C32-D3', MAIN, 'signing call at ' + loc(fn.B[s]['t']['span']), 'Ok exit only after re-reading the output', not okrets, site=loc(fn.B[s]['t']['span']))
