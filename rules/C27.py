"""C27 Redirects never reach internal addresses or leak credentials."""
import re
from lib import CallGuard, loc, classify_ret, Engine, const_val
from terms import Terms, ret_hits, fact_literals
import oblig

EXPLANATION = ("All-paths MIR rules on RedirectResolver (sync body and async coroutine), redirect_target, host_is_non_global, "
               "ip/ipv4/ipv6_is_non_global and build_redirected_request: hop loop bounded by 0..=MAX_REDIRECTS (const-evaluated <= 10) with "
               "TooManyRedirects on exhaustion; every re-issued request comes from build_redirected_request on a target validated by "
               "redirect_target; Ok(Some(target)) only with allow_redirects and host_is_non_global(target) = false; the falsity conditions "
               "(DNF over all false-returning paths) of the address predicates contain every std predicate named by the property; the four "
               "credential headers are never forwarded. The masked comparisons for fc00::/7, fe80::/10 and 100.64.0.0/10 are decided by enumeration: every value of the prefix in the 16-bit segment / octet domain satisfies one of the function's masked tests.")
RULE = "obligation = (function, effect/return, guard) ; DNF clauses of predicate functions are enumerated exhaustively"
R = 'http::restricted::'
IMPLS = [('<http::restricted::RedirectResolver<T> as http::SyncHttpResolver>::http_resolve', r'SyncHttpResolver::http_resolve$'),
         ('<http::restricted::RedirectResolver<T> as http::AsyncHttpResolver>::http_resolve_async::{closure#0}', r'AsyncHttpResolver::http_resolve_async$')]
V4 = ['is_unspecified', 'is_loopback', 'is_private', 'is_link_local', 'is_broadcast', 'is_documentation', 'is_multicast']
V6 = ['is_unspecified', 'is_loopback', 'is_multicast']
HDRS = ['HOST', 'AUTHORIZATION', 'COOKIE', 'PROXY_AUTHORIZATION']


def run(ctx):
    prog = ctx.prog(('c2pa',))
    T = Terms(prog)
    # ---- D1/D2 per impl (D6: both siblings get the same obligations)
    mr = prog.bodies.get(R + 'MAX_REDIRECTS')
    val = None
    if ctx.require(mr is not None, R + 'MAX_REDIRECTS'):
        v = const_val(mr['blocks'][0]['s'][0][1]['o'])
        val = v[1] if v[0] == 'const' else None
        ctx.ob('C27-D1', R + 'MAX_REDIRECTS', 'const value', '<= 10', val is not None and val <= 10, detail='MAX_REDIRECTS = %s' % (val,))
    for name, innerpat in IMPLS:
        if not ctx.require(prog.has(name), name):
            continue
        fn = prog.fn(name)
        ctx.analysed(name, len(list(fn.calls())))
        inner = [bi for bi, t in fn.calls() if re.search(innerpat, t['fd']) and t['f'].startswith('<T as')]
        ctx.ob('C27-D1', name, 'inner transport call', 'exactly one site', len(inner) == 1, detail='%d sites' % len(inner))
        if len(inner) != 1:
            continue
        ib = inner[0]
        rng = [bi for bi, t in fn.calls() if t['fd'] == 'std::ops::RangeInclusive::<Idx>::new']
        ok_rng = False
        for bi in rng:
            term = T.call_term(fn, bi)
            if term == 'RangeInclusive::new(0,MAX_REDIRECTS)':
                ok_rng = True
        ctx.ob('C27-D1', name, 'hop loop range', 'RangeInclusive::new(0, MAX_REDIRECTS)', ok_rng, detail=str([T.call_term(fn, b) for b in rng]))
        nexts = [bi for bi, t in fn.calls() if t['fd'] == 'std::iter::Iterator::next' and 'RangeInclusive::new(0,MAX_REDIRECTS)' in T.call_term(fn, bi)]
        # every cycle through the inner call passes the range's next()
        start = fn.B[ib]['t']['t']
        back = start is not None and ib in fn.reachable(start, avoid=set(nexts))
        ctx.ob('C27-D1', name, 'inner transport call (re-execution)', 'only through range.next() of 0..=MAX_REDIRECTS', bool(nexts) and not back,
               detail='' if not back else 'a cycle re-issues the request without consuming the hop counter', site=loc(fn.B[ib]['t']['span']))
        # D2: ... and passes redirect_target and build_redirected_request
        for pat, what in ((R + 'RedirectResolver::<T>::redirect_target', 'redirect_target'), (R + 'build_redirected_request', 'build_redirected_request')):
            blocks = [bi for bi, t in fn.calls() if t['fd'] == pat]
            back2 = start is not None and ib in fn.reachable(start, avoid=set(blocks))
            ctx.ob('C27-D2', name, 'inner transport call (re-execution)', 'only after ' + what, bool(blocks) and not back2,
                   detail='' if not back2 else 'a hop can be re-issued without passing %s' % what, site=loc(fn.B[ib]['t']['span']))
        # the target handed to build_redirected_request is the value validated by redirect_target (def-use)
        for bi, t in fn.calls():
            if t['fd'] == R + 'build_redirected_request':
                term = T.op_term(fn, t['args'][3])
                ctx.ob('C27-D2', name, 'build_redirected_request(.., target)', 'target = redirect_target(..) Ok(Some(_))', 'RedirectResolver::redirect_target(' in term,
                       detail='target argument: ' + term[:200], site=loc(t['span']))
                # redirect_target is given the response of this hop
                for b2, t2 in fn.calls():
                    if t2['fd'] == R + 'RedirectResolver::<T>::redirect_target':
                        term2 = T.op_term(fn, t2['args'][2])
                        ctx.ob('C27-D2', name, 'redirect_target(.., response)', 'response of the inner transport call', 'http_resolve' in term2, detail='response argument: ' + term2[:160])
        # the request passed to the inner call: initial arg or build_redirected_request result
        rterm = T.op_term(fn, fn.B[ib]['t']['args'][1])
        req_l = fn.B[ib]['t']['args'][1].get('l')
        srcs = set()
        for o in fn.origins(fn.B[ib]['t']['args'][1]):
            if o[0] == 'call':
                srcs.add(T.call_term(fn, o[1]).split('(')[0])
            elif o[0] == 'arg':
                srcs.add('arg')
            elif o[0] == 'field':
                srcs.add('arg' if o[1][0] in ('arg', 'local') else T.call_term(fn, o[1][1]).split('(')[0] if o[1][0] == 'call' else str(o[1][0]))
            else:
                srcs.add(str(o[0]))
        okreq = srcs <= {'arg', 'build_redirected_request', 'local'} and 'build_redirected_request' in srcs
        ctx.ob('C27-D2', name, 'request re-issued', 'origin ⊆ {caller request, build_redirected_request(..)}', okreq, detail='origins: %s' % sorted(srcs))
        # exit by exhaustion => Err(TooManyRedirects)
        tm = [1 for b in fn.B for dst, rv in b['s'] if rv['k'] == 'agg' and rv.get('variant') == 'TooManyRedirects']
        g_none = CallGuard(r'^std::iter::Iterator::next$', 'none', name='hop range exhausted')
        oblig.failing_edge_obligation(ctx, 'C27-D1', fn, g_none, lambda bi, b: False, 'Err(TooManyRedirects)')
        ctx.ob('C27-D1', name, 'exhaustion error', 'TooManyRedirects constructed', bool(tm))
    # ---- D3 redirect_target
    rt = R + 'RedirectResolver::<T>::redirect_target'
    if ctx.require(prog.has(rt), rt):
        fn = prog.fn(rt)
        ctx.analysed(rt, len(list(fn.calls())))
        eng, hits = ret_hits(fn)
        ctx.states += eng.states
        nsome = 0
        for cls, facts, env, key, bi in hits:
            v = env.get(0)
            if cls != 'Ok' or not v or v[3][0][0] != 'variant' or v[3][0][2] != 'Some':
                if cls == 'Ok' and not (v and v[3] and v[3][0][0] == 'variant'):
                    ctx.ob('C27-D3', rt, 'return Ok(<non-literal>)', 'Some/None literal', False, detail='unrecognised Ok value')
                continue
            nsome += 1
            L = fact_literals(T, fn, facts)
            allow = any(re.fullmatch(r'self\.allow_redirects=1', l) for l in L)
            tgt = T.atom_term(fn, v[3][0][3][0])
            nong = any(l.startswith('!host_is_non_global(') and 'resolve_redirect_target(' in l for l in L)
            ctx.ob('C27-D3', rt, 'return Ok(Some(target))', 'self.allow_redirects = true', allow, detail=str(sorted(L)))
            ctx.ob('C27-D3', rt, 'return Ok(Some(target))', 'host_is_non_global(target) = false', nong, detail=str(sorted(L)))
            ctx.ob('C27-D3', rt, 'return Ok(Some(target))', 'target = resolve_redirect_target(from_uri, location)', 'resolve_redirect_target(' in tgt, detail='target is ' + tgt)
        ctx.floor('Ok(Some(_)) returns of redirect_target', nsome, 1, rule='C27-D3')
    # ---- D4 address predicates: falsity DNF
    def need(fnname, rule, clause_filter, required, label):
        if not ctx.require(prog.has(fnname), fnname):
            return
        s, dnf = T.falsity_dnf(fnname)
        ctx.analysed(fnname)
        if not ctx.ob(rule, fnname, 'falsity condition', 'computable', dnf is not None and len(dnf) > 0, detail=s[:200]):
            return
        for i, c in enumerate(dnf):
            if not clause_filter(c):
                continue
            for r in required:
                ok = any(re.fullmatch(r, l) for l in c)
                ctx.ob(rule, fnname, 'return false (%s, class %d)' % (label, i), r.replace('\\', ''), ok, detail=' & '.join(sorted(c))[:500])
    h = R + 'host_is_non_global'
    need(h, 'C27-D4', lambda c: any(l.startswith('!ok(parse(') for l in c),
         [r'ok\(Uri::host\(uri\)\)', r'!looks_like_obfuscated_ip\(normalize_host\(Uri::host\(uri\)\.Some\.0\)\)',
          r'!PartialEq::eq\(normalize_host\(Uri::host\(uri\)\.Some\.0\),"localhost"\)', r'!(str::)?ends_with\(normalize_host\(Uri::host\(uri\)\.Some\.0\),"\.localhost"\)'], 'DNS name')
    need(h, 'C27-D4', lambda c: any(l.startswith('ok(parse(') for l in c),
         [r'ok\(Uri::host\(uri\)\)', r'!ip_is_non_global\(parse\(normalize_host\(Uri::host\(uri\)\.Some\.0\)\)\.Ok\.0\)'], 'IP literal')
    # every false-returning class is one of the two
    if prog.has(h):
        s, dnf = T.falsity_dnf(h)
        for i, c in enumerate(dnf or []):
            ok = any(l.startswith('!ok(parse(') or l.startswith('ok(parse(') for l in c)
            ctx.ob('C27-D4', h, 'return false (class %d)' % i, 'decided after parse::<IpAddr>()', ok, detail=' & '.join(sorted(c))[:300])
    need(R + 'ip_is_non_global', 'C27-D4', lambda c: True, [r'!ipv[46]_is_non_global\(ip\.V[46]\.0\)'], 'variant')
    need(R + 'ipv4_is_non_global', 'C27-D4', lambda c: True, [r'!Ipv4Addr::%s\(ip\)' % p for p in V4], 'ipv4')
    if prog.has(R + 'ipv4_is_non_global'):
        s, dnf = T.falsity_dnf(R + 'ipv4_is_non_global')
        for i, c in enumerate(dnf or []):
            n = len([l for l in c if re.search(r'eq\(.*Ipv4Addr::octets\(ip\)', l)])
            ctx.ob('C27-D4', R + 'ipv4_is_non_global', 'return false (ipv4, class %d)' % i, '>= 2 octet comparisons (this-network, shared address space)', n >= 2, detail='%d octet comparisons' % n)
    need(R + 'ipv6_is_non_global', 'C27-D4', lambda c: any(l.startswith('!ok(Ipv6Addr::to_ipv4_mapped') for l in c), [r'!Ipv6Addr::%s\(ip\)' % p for p in V6], 'ipv6')
    need(R + 'ipv6_is_non_global', 'C27-D4', lambda c: any(l.startswith('ok(Ipv6Addr::to_ipv4_mapped') for l in c), [r'!ipv4_is_non_global\(Ipv6Addr::to_ipv4_mapped\(ip\)\.Some\.0\)'], 'ipv4-mapped')
    if prog.has(R + 'ipv6_is_non_global'):
        s, dnf = T.falsity_dnf(R + 'ipv6_is_non_global')
        for i, c in enumerate(dnf or []):
            if any(l.startswith('ok(Ipv6Addr::to_ipv4_mapped') for l in c):
                continue
            n = len([l for l in c if re.search(r'eq\(bitand\(Ipv6Addr::segments\(ip\)', l)])
            ctx.ob('C27-D4', R + 'ipv6_is_non_global', 'return false (ipv6, class %d)' % i, '>= 2 masked segment comparisons (unique-local, link-local)', n >= 2, detail='%d segment comparisons' % n)
    # ---- D4b masked comparisons decided by enumeration of the finite domain (a 16-bit segment / an octet): every address of the
    # RFC prefixes the property names (fc00::/7, fe80::/10, 100.64.0.0/10) must satisfy one of the function's masked tests
    def masked(fn_name, base_pat):
        out = []
        fn2 = prog.fn(fn_name)
        for blk in fn2.B:
            for dst, rv in blk['s']:
                if rv['k'] == 'bin' and rv['op'] == 'Eq':
                    a, b2 = T.op_term(fn2, rv['a']), T.op_term(fn2, rv['b'])
                    m = re.fullmatch(r'bitand\((%s[^,]*),(\d+)\)' % base_pat, a)
                    if m and re.fullmatch(r'\d+', b2):
                        out.append((int(m.group(2)), int(b2)))
        return out
    if prog.has(R + 'ipv6_is_non_global'):
        mv = masked(R + 'ipv6_is_non_global', r'Ipv6Addr::segments\(ip\)')
        cov = set(x for x in range(1 << 16) if any((x & m_) == v_ for m_, v_ in mv))
        for nm, lo, hi in (('fc00::/7 unique local', 0xfc00, 0xfe00), ('fe80::/10 link local', 0xfe80, 0xfec0)):
            miss = [x for x in range(lo, hi) if x not in cov]
            ctx.ob('C27-D4', R + 'ipv6_is_non_global', 'first segment of ' + nm, 'every value of the prefix satisfies a masked test (enumerated over 65536 values)', bool(mv) and not miss,
                   detail='masked tests %s; first uncovered value %s' % ([(hex(a), hex(b)) for a, b in mv], hex(miss[0]) if miss else '-'))
    if prog.has(R + 'ipv4_is_non_global'):
        mv = masked(R + 'ipv4_is_non_global', r'Ipv4Addr::octets\(ip\)')
        fn4 = prog.fn(R + 'ipv4_is_non_global')
        has100 = any(rv['k'] == 'bin' and rv['op'] == 'Eq' and T.op_term(fn4, rv['b']) == '100' and 'Ipv4Addr::octets(ip)' in T.op_term(fn4, rv['a']) for blk in fn4.B for dst, rv in blk['s'])
        covb = set(x for x in range(256) if any((x & m_) == v_ for m_, v_ in mv))
        miss = [x for x in range(64, 128) if x not in covb]
        ctx.ob('C27-D4', R + 'ipv4_is_non_global', 'second octet of 100.64.0.0/10 (shared address space)', 'first octet == 100 and every second octet 64..127 satisfies the masked test (enumerated)', has100 and bool(mv) and not miss,
               detail='masked tests %s; first uncovered value %s' % (mv, miss[0] if miss else '-'))
    # normalisation is applied before parsing
    # ---- D5 header stripping
    br = R + 'build_redirected_request'
    if ctx.require(prog.has(br), br):
        fn = prog.fn(br)
        ctx.analysed(br, len(list(fn.calls())))
        def is_header(bi, b):
            t = b['t']
            return t['k'] == 'call' and t['fd'] == 'http::request::Builder::header'
        for hname in HDRS:
            def ap(f, bi, t, _h=hname):
                for a in t['args']:
                    if a.get('item') == 'http::header::' + _h:
                        return True
                    if 'l' in a and any(o == ('item', 'http::header::' + _h) for o in f.origins(a)):
                        return True
                return False
            g = CallGuard(r'^std::cmp::PartialEq::eq$', 'false', argpred=ap, name='name == header::%s is false' % hname)
            # the same fact established through a private predicate (e.g. `if is_dropped(name) { continue }`): outcome whose every clause has !eq(name, HEADER)
            hg = oblig.helper_guards(prog, T, fn, lambda l, _h=hname: re.fullmatch(r'!PartialEq::eq\([^,]+,%s\)' % _h, l) is not None, 'name == header::%s is false' % hname)
            oblig.effect_requires(ctx, 'C27-D5', fn, 'builder.header(name, value)', is_header, [g] + hg)
