"""Generic obligation kinds built on the E1 engine. Every function here records obligations on ctx."""
import os
import re
from lib import Engine, CallGuard, classify_ret, loc, describe_path, FROM_RESIDUAL
import logs

ERR_CLASSES = ('Err', 'residual')


def _engine(fn, guards, extra=None, maxstates=400000, extra_atoms=None):
    def tc(bi, t):
        for g in guards:
            if g.matches_call(fn, bi, t):
                return True
        return bool(extra and extra(bi, t))

    def ta(a):
        for g in guards:
            if hasattr(g, 'track_atom') and g.track_atom(fn, a):
                return True
        if extra_atoms:
            inner = a[1] if a[0] in ('ok', 'discr', 'not') else a
            if a in extra_atoms or inner in extra_atoms:
                return True
        return False
    return Engine(fn, track_calls=tc, track_atom=ta, maxstates=maxstates)


def refine_explore(fn, guards, monitor, extra=None, max_rounds=6):
    """explore with slicing; callers validate witnesses with eng.feasible and may call again with extra atoms"""
    eng = _engine(fn, guards, extra)
    hits = eng.explore(monitor)
    return eng, hits


def effect_requires(ctx, rule, fn, effect_name, is_effect, guards_any, detail_ok='', floor=1, site_of=None, info=False, extra_track=None):
    """Every state reaching a block where is_effect(bi, block) holds must have at least one of guards_any established.
    guards_any: list of CallGuard (disjunction). Returns number of effect blocks found."""
    eff_blocks = [bi for bi, b in enumerate(fn.B) if is_effect(bi, b)]
    if not eff_blocks:
        ctx.ob(rule, fn.name, effect_name, 'effect site exists', False, detail='no effect site "%s" found in %s (anchor moved?)' % (effect_name, fn.name), nontrivial=False)
        return 0
    effset = set(eff_blocks)
    # cheap sound pre-check (graph reachability): if, after deleting every CFG edge on which one of the guards is
    # established, no effect block is reachable from entry, and no guard call site can be re-executed on the way from
    # its establishing edge to the effect (no loop through it), the obligation holds without path enumeration.
    try:
        pre = False if os.environ.get('VERIF_EXHAUSTIVE') else _cheap_precheck(fn, effset, guards_any)
    except Exception:
        pre = False
    if pre:
        for ebi in eff_blocks:
            t = fn.B[ebi]['t']
            sp = site_of(ebi) if site_of else loc(t.get('span'))
            ctx.ob(rule, fn.name, effect_name, ' | '.join(g.name for g in guards_any), True, detail=detail_ok or 'dominated by guard edges (graph cut)', site=sp, info=info)
        return len(eff_blocks)
    extra_calls = set()
    extra_atoms = set()
    for _round in range(10):
        def mon(bi, b, env, facts, ms):
            # ms = most recently established guard site (or -1); invalidated when that call is re-executed
            est = []
            for g in guards_any:
                est.extend(g.holds(fn, facts))
            if est:
                ms = max(est)
            labels = []
            if bi in effset and ms < 0:
                labels = [('bad', bi)]
            if bi == ms:
                ms = -1
            return ms, labels
        mon.init = -1
        eng = _engine(fn, guards_any, extra=lambda bi, t: bi in extra_calls or bool(extra_track and extra_track(bi, t)), extra_atoms=extra_atoms)
        hits = eng.explore(mon, forget=True)
        ctx.states += eng.states
        bad = {}
        refine = False
        for (lab, ebi), bi, facts, env, key in hits:
            if ebi in bad:
                continue
            path = eng.path_of(key)
            ok, atom = eng.feasible(path)
            if ok:
                # full replay: maybe the guard is established under full tracking
                fenv, ffacts = eng.final_env(path)
                if ffacts is not None and any(g.holds(fn, ffacts) for g in guards_any):
                    continue
                bad[ebi] = path
            else:
                from lib import call_sites_in
                inner = atom[1] if atom and atom[0] in ('ok', 'discr', 'not') and len(atom) > 1 else atom
                if inner and inner[0] in ('place', 'local') and inner not in extra_atoms:
                    extra_atoms.add(inner); refine = True
                else:
                    new = [s for s in call_sites_in(atom) if s not in extra_calls]
                    if new:
                        extra_calls.update(new); refine = True
                    else:
                        # an infeasible witness that cannot be refined further: fail closed
                        bad[ebi] = path
        if not refine:
            break
    for ebi in eff_blocks:
        t = fn.B[ebi]['t']
        sp = site_of(ebi) if site_of else loc(t.get('span'))
        path = bad.get(ebi)
        ctx.ob(rule, fn.name, effect_name, ' | '.join(g.name for g in guards_any), path is None,
               detail=detail_ok if path is None else 'effect "%s" at %s is reachable without guard [%s]; path lines %s' % (
                   effect_name, sp, ' | '.join(g.name for g in guards_any), describe_path(fn, path)),
               site=sp, witness=None if path is None else {'blocks': path[:80]}, info=info)
    return len(eff_blocks)


def _guard_edges(fn, g):
    """CFG edges (switch block, target) on which guard g is established, for the simple shapes
    `switchInt(call_result)` / `switchInt(discriminant(call_result))` / `switchInt(field)`; None if g has a site we cannot map"""
    from lib import is_result_ty, is_option_ty
    edges = set()
    sites = set()
    for bi, b in enumerate(fn.B):
        t = b['t']
        if t['k'] != 'switch' or 'l' not in t['d']:
            continue
        origins = fn.origins(t['d'])
        if len(origins) != 1:
            continue
        o = next(iter(origins))
        neg = False
        while o[0] == 'not':
            o = o[1]; neg = not neg
        want = g.want
        vals = None          # set of switch values establishing the guard; 'else' handled via otherwise
        if o[0] == 'call' and hasattr(g, 're') and g.matches_call(fn, o[1], fn.B[o[1]]['t']) and want in ('true', 'false'):
            w = (want == 'true') != neg
            vals = 'nonzero' if w else 'zero'
            sites.add(o[1])
        elif o[0] == 'discr' and o[1][0] == 'call' and hasattr(g, 're') and g.matches_call(fn, o[1][1], fn.B[o[1][1]]['t']) and want in ('ok', 'err', 'some', 'none'):
            d = fn.B[o[1][1]]['t']['dest']
            ty = fn.local_ty(d['l']) if not d['p'] else ''
            if is_result_ty(ty):
                vals = 'zero' if want == 'ok' else 'nonzero'
            elif is_option_ty(ty):
                vals = 'nonzero' if want == 'some' else 'zero'
            sites.add(o[1][1])
        elif o[0] == 'field' and hasattr(g, 'T') and want in ('true', 'false'):
            try:
                term = g.T.origin_term(fn, o)[0]
            except Exception:
                term = ''
            if g.re.search(term):
                w = (want == 'true') != neg
                vals = 'nonzero' if w else 'zero'
        if vals is None:
            continue
        for v, tb in t['ts']:
            if (vals == 'zero' and v == 0) or (vals == 'nonzero' and v != 0):
                edges.add((bi, tb))
        listed = [v for v, _ in t['ts']]
        if (vals == 'nonzero' and 0 in listed) or (vals == 'zero' and 0 not in listed):
            edges.add((bi, t['o']))
    return edges, sites


def _cheap_precheck(fn, effset, guards):
    edges = set()
    sites = set()
    for g in guards:
        e, s_ = _guard_edges(fn, g)
        edges |= e
        sites |= s_
    if not edges:
        return False
    reach = fn.reachable(0, avoid_edges=edges)
    if reach & effset:
        return False
    # re-execution of a guard call between its edge and the effect would invalidate it: require that no guard site lies on a cycle
    for s_ in sites:
        nxt = fn.B[s_]['t']['t']
        if nxt is not None and s_ in fn.reachable(nxt):
            return False
    return True


def failing_edge_obligation(ctx, rule, fn, guard, discharge, effect_name, accept_ret=ERR_CLASSES, floor=1, info=False, accept_ret_pred=None):
    """For every call site matching guard (outcome = the *failing* outcome, e.g. err/false): from that outcome every
    path to a return must pass a block where discharge(bi, block) holds, or return a class in accept_ret."""
    sites = [bi for bi, t in fn.calls() if guard.matches_call(fn, bi, t)]
    if not sites:
        ctx.ob(rule, fn.name, effect_name, guard.name, False, detail='no call site matching guard %s in %s (anchor moved?)' % (guard.name, fn.name), nontrivial=False)
        return 0
    for s in sites:
        one = CallGuard('^$', guard.want, name=guard.name)
        one.matches_call = (lambda f, bi, t, _s=s: bi == _s)
        witness = None
        extra_calls = set()
        extra_atoms = set()
        for _round in range(8):
            def mon(bi, b, env, facts, ms):
                # st: 0 = guard not (re)evaluated/failed yet, 1 = failed and pending, 2 = discharged,
                # 3 = failed, then the guard call was re-entered (loop) without discharge: sticky
                # rdef: block that last defined the return slot (keeps equally-unknown return values of different origin apart)
                st, rdef = ms
                if any(dst['l'] == 0 for dst, rv in b['s']) or (b['t']['k'] == 'call' and b['t']['dest']['l'] == 0):
                    rdef = bi
                if bi == s:
                    st = 3 if st in (1, 3) else 0
                elif st == 0 and one.holds(fn, facts):
                    st = 1
                if st == 1 and discharge(bi, b):
                    st = 2
                if b['t']['k'] == 'ret' and st in (1, 3):
                    cls = classify_ret(fn, env.get(0))
                    if cls in accept_ret or (accept_ret_pred and accept_ret_pred(cls)):
                        return (st, rdef), []
                    return (st, rdef), [('bad', cls, rdef)]
                return (st, rdef), []
            mon.init = (0, -1)
            eng = _engine(fn, [one], extra=lambda bi, t: bi in extra_calls, extra_atoms=extra_atoms)
            hits = eng.explore(mon, forget=True)
            ctx.states += eng.states
            witness = None
            refine = False
            from lib import call_sites_in
            ec0, ea0 = set(extra_calls), set(extra_atoms)
            for (lab, cls, _rd), bi, facts, env, key in hits:
                path = eng.path_of(key)
                ok, atom = eng.feasible(path)
                if ok:
                    # re-evaluate return class with full tracking
                    fenv, ffacts = eng.final_env(path)
                    if fenv is not None:
                        cls2 = classify_ret(fn, fenv.get(0))
                        if cls2 in accept_ret or (accept_ret_pred and accept_ret_pred(cls2)):
                            # the sliced exploration and the replay disagree: track what the return value depends on and explore again,
                            # so that another path merged into the same sliced state is not decided by this representative
                            new = [x for x in call_sites_in(fenv.get(0)) if x not in extra_calls]
                            if new:
                                extra_calls.update(new); refine = True
                            continue
                    witness = (path, cls)
                    break
                new = [x for x in call_sites_in(atom) if x not in ec0]
                if new:
                    extra_calls.update(new); refine = True
                elif atom is not None and atom not in ea0:
                    extra_atoms.add(atom); refine = True
                else:
                    witness = (path, str(cls) + ' (witness infeasible under full tracking, nothing left to refine: fail closed)')
                    break
            if witness or not refine:
                break
        t = fn.B[s]['t']
        ctx.ob(rule, fn.name, effect_name, guard.name, witness is None,
               detail='' if witness is None else 'from the %s outcome of %s at %s a path reaches `return %s` without %s; path lines %s' % (
                   guard.want, t['fd'].split('::')[-1], loc(t['span']), witness[1], effect_name, describe_path(fn, witness[0])),
               site=loc(t['span']), witness=None if witness is None else {'blocks': witness[0][:80]}, info=info)
    return len(sites)


def returns_only_if(ctx, rule, fn, ret_class, guards_any, name=None, info=False, extra_track=None):
    """every `return <ret_class>` state must have one of guards_any established"""
    extra_calls = set()
    extra_atoms = set()
    bad = None
    nret = 0
    for _round in range(8):
        def mon(bi, b, env, facts, ms):
            # monitor state: (most recent guard site or -1, block that last defined the return slot).  The defining block keeps
            # returns of different origin apart: two paths whose symbolic return value is equally unknown are still distinct witnesses.
            gms, rdef = ms
            est = []
            for g in guards_any:
                est.extend(g.holds(fn, facts))
            if est:
                gms = max(est)
            if any(dst['l'] == 0 for dst, rv in b['s']) or (b['t']['k'] == 'call' and b['t']['dest']['l'] == 0):
                rdef = bi
            labels = []
            if b['t']['k'] == 'ret':
                labels = [(env.get(0), gms, rdef)]
            if bi == gms:
                gms = -1
            return (gms, rdef), labels
        mon.init = (-1, -1)
        eng = _engine(fn, guards_any, extra=lambda bi, t: bi in extra_calls or bool(extra_track and extra_track(bi, t)), extra_atoms=extra_atoms)
        hits = eng.explore(mon, forget=True)
        ctx.states += eng.states
        bad = None
        refine = False
        nret = 0
        ec0, ea0 = set(extra_calls), set(extra_atoms)
        for (v, gms, _rdef), bi, facts, env, key in hits:
            cls = classify_ret(fn, v)
            if not (cls == ret_class or (callable(ret_class) and ret_class(cls))):
                continue
            nret += 1
            if gms >= 0:
                continue
            path = eng.path_of(key)
            ok, atom = eng.feasible(path)
            if ok:
                fenv, ffacts = eng.final_env(path)
                if ffacts is not None:
                    c2 = classify_ret(fn, fenv.get(0))
                    if any(g.holds(fn, ffacts) for g in guards_any) or not (c2 == ret_class or (callable(ret_class) and ret_class(c2))):
                        # sliced exploration and replay disagree: track what the return value depends on and explore again
                        from lib import call_sites_in as _csi
                        new = [x for x in _csi(fenv.get(0)) if x not in extra_calls]
                        if new:
                            extra_calls.update(new); refine = True
                        continue
                bad = path
                break
            from lib import call_sites_in
            new = [x for x in call_sites_in(atom) if x not in ec0]
            if new:
                extra_calls.update(new); refine = True
            elif atom is not None and atom not in ea0:
                extra_atoms.add(atom); refine = True
            else:
                bad = path   # infeasible under full tracking but nothing left to refine on: fail closed
                break
        if bad or not refine:
            break
    rc = ret_class if isinstance(ret_class, str) else (name or 'ret')
    if nret == 0 and bad is None:
        ctx.ob(rule, fn.name, 'return ' + rc, 'exists', False, detail='no `return %s` found in %s' % (rc, fn.name), nontrivial=False, info=info)
        return
    ctx.ob(rule, fn.name, 'return ' + rc, ' | '.join(g.name for g in guards_any), bad is None,
           detail='' if bad is None else '`return %s` reachable without [%s]; path lines %s' % (rc, ' | '.join(g.name for g in guards_any), describe_path(fn, bad)),
           site=loc(fn.d['span']), witness=None if bad is None else {'blocks': bad[:80]}, info=info)


def helper_guards(prog, T, fn, lit_pred, name):
    """Guards established through a bool-returning helper of the crate: outcome o of helper H called in fn establishes the fact when
    EVERY clause of H's condition for outcome o (truth / falsity DNF) contains a literal satisfying lit_pred.  This keeps a rule stable
    when a condition is extracted into a private predicate function."""
    out = []
    seen = set()
    for bi, t in fn.calls():
        for tgt in prog.callee_targets(t):
            if tgt in seen or not prog.has(tgt) or prog.fn(tgt).d.get('ret') != 'bool':
                continue
            seen.add(tgt)
            for o, getter in (('true', T.truth_dnf), ('false', T.falsity_dnf)):
                try:
                    dnf = getter(tgt)[1]
                except Exception:
                    dnf = None
                if dnf and all(any(lit_pred(l) for l in c) for c in dnf):
                    out.append(CallGuard('^' + re.escape(tgt) + '$', o, name='%s (through %s = %s)' % (name, tgt.split('::')[-1], o)))
    return out


def must_pass_through(ctx, rule, fn, is_target, through, effect_name, guard_name, info=False):
    """every CFG path from entry to a block satisfying is_target passes a block satisfying through
    (path-insensitive: reachability after deleting the `through` blocks)"""
    thr = set(bi for bi, b in enumerate(fn.B) if through(bi, b))
    targets = [bi for bi, b in enumerate(fn.B) if is_target(bi, b)]
    if not targets:
        ctx.ob(rule, fn.name, effect_name, 'target exists', False, detail='no target "%s" in %s' % (effect_name, fn.name), nontrivial=False, info=info)
        return
    reach = fn.reachable(0, avoid=thr)
    bad = [t for t in targets if t in reach and t not in thr]
    ctx.ob(rule, fn.name, effect_name, guard_name, not bad,
           detail='' if not bad else '%s reachable without passing %s (blocks %s)' % (effect_name, guard_name, bad[:5]),
           site=loc(fn.d['span']), info=info)


def log_block_pred(prog, fn, consts, kinds=('failure',), codes=None, code_pred=None):
    """predicate over blocks: block ends in a log call of the given kind(s) (and code set)"""
    sites = {s['bi']: s for s in logs.log_sites(prog, fn, consts)}

    def pred(bi, b):
        s = sites.get(bi)
        if not s or s['kind'] not in kinds:
            return False
        if codes is None and code_pred is None:
            return True
        vals = [v for k, v in s['codes'] if k == 'str']
        if codes is not None and any(v in codes for v in vals):
            return True
        if code_pred is not None and any(code_pred(v) for v in vals):
            return True
        return False
    return pred, sites


class TermGuard:
    """guard on any atom whose canonical term matches a regex (field reads, comparisons, calls), with a wanted value:
    want in true|false|ok|err|some|none or an int (discriminant value)"""

    def __init__(self, T, pat, want, name=None, call_pat=None):
        self.T = T
        self.re = re.compile(pat)
        self.want = want
        self.name = name or ('%s=%s' % (pat, want))
        self.call_re = re.compile(call_pat) if call_pat else None
        self._cache = {}

    def matches_call(self, fn, bi, t):
        if self.call_re is not None:
            return bool(self.call_re.search(t['fd']))
        # calls are tracked only when their own term matches
        k = (fn.name, bi)
        r = self._cache.get(k)
        if r is None:
            try:
                r = bool(self.re.search(self.T.call_term(fn, bi)))
            except Exception:
                r = False
            self._cache[k] = r
        return r

    def _term(self, fn, a):
        k = (fn.name, a)
        r = self._cache.get(k)
        if r is None:
            try:
                r = self.T.atom_term(fn, a)
            except Exception:
                r = ''
            self._cache[k] = r
        return r

    def track_atom(self, fn, a):
        inner = a[1] if a[0] in ('ok', 'discr') else a
        return bool(self.re.search(self._term(fn, inner)))

    def holds(self, fn, facts):
        out = []
        for a, v in facts.items():
            inner = a[1] if a[0] in ('ok', 'discr') else a
            if not self.re.search(self._term(fn, inner)):
                continue
            if isinstance(self.want, int):
                ok = (a[0] == 'discr' and v == self.want)
            elif a[0] == 'ok':
                ok = v == {'ok': 1, 'some': 1, 'err': 0, 'none': 0}.get(self.want, -1)
            else:
                ok = v == {'true': 1, 'false': 0}.get(self.want, -1)
                # `switch place { 0 => .., _ => here }`: the otherwise edge of a bool-valued place is "true"
                if not ok and self.want == 'true' and isinstance(v, tuple) and len(v) == 2 and v[0] == 'else' and 0 in v[1]:
                    ok = True
            if ok:
                sites = [s for s in __import__('lib').call_sites_in(a)]
                out.append(max(sites) if sites else 1000000)
        return out
