"""Shared analysis library: CFG helpers, def-use, call graph, E1 guarded-effect engine.

All analyses work on the JSON MIR facts written by the driver (see driver/src/main.rs).
Nothing here executes or interprets SDK code; values are symbolic names of call sites,
constants and places, and the only "evaluation" is conditional constant propagation of
guards (which branch edge was taken for which call result).
"""
import collections
import re
import sys

sys.setrecursionlimit(100000)

# ----------------------------------------------------------------------------- basic helpers


def loc(span):
    if not span:
        return '?'
    return '%s:%d' % (span.get('file', '?'), span.get('l', 0))


def short(fd):
    return fd.split('::')[-1]


def strip_ty(t):
    """'&'{erased} mut settings::Settings' -> 'settings::Settings'"""
    t = t.strip()
    while True:
        m = re.match(r"^&('\{erased\}|'[a-z_]+)?\s*(mut\s+)?", t)
        if m and m.end() > 0:
            t = t[m.end():]
            continue
        if t.startswith('*const ') or t.startswith('*mut '):
            t = t.split(' ', 1)[1]
            continue
        break
    return t


def ty_head(t):
    t = strip_ty(t)
    i = t.find('<')
    return t if i < 0 else t[:i]


def is_result_ty(t):
    return ty_head(t) in ('std::result::Result', 'core::result::Result')


def is_option_ty(t):
    return ty_head(t) in ('std::option::Option', 'core::option::Option')


def _first_generic(t):
    i = t.find('<')
    if i < 0:
        return None
    inner = t[i + 1:t.rindex('>')]
    depth = 0
    for j, ch in enumerate(inner):
        if ch in '<([':
            depth += 1
        elif ch in '>)]':
            depth -= 1
        elif ch == ',' and depth == 0:
            return inner[:j].strip()
    return inner.strip()


DEFAULT_ADTS = {}


def field_ty(t, proj):
    """type reached from type t through a projection made of struct fields (.N) and enum payloads"""
    cur = strip_ty(t)
    proj = [p for p in proj if p != '*']
    i = 0
    while i < len(proj):
        p = proj[i]
        if p.startswith('.'):
            adt = DEFAULT_ADTS.get(ty_head(cur))
            if not adt or len(adt['variants']) != 1:
                return None
            k = int(p[1:])
            fs = adt['variants'][0]['fields']
            if k >= len(fs):
                return None
            cur = strip_ty(fs[k][1])
            i += 1
            continue
        if p.startswith('as '):
            rest = peel_payload(cur, proj[i:i + 2] if i + 1 < len(proj) and proj[i + 1] == '.0' else proj[i:i + 1])
            if rest is None:
                return None
            cur = rest
            i += 2 if i + 1 < len(proj) and proj[i + 1] == '.0' else 1
            continue
        return None
    return cur


def peel_payload(t, proj):
    """type of  (x as Ready/Some/Ok).0  for x: Poll<T>/Option<T>/Result<T,E>; None if not recognised"""
    cur = strip_ty(t)
    i = 0
    proj = [p for p in proj if p != '*']
    while i < len(proj):
        p = proj[i]
        if p.startswith('as '):
            vn = p[3:].split('#')[0]
            head = ty_head(cur)
            if vn in ('Ready', 'Some', 'Ok', 'Continue') and head.split('::')[-1] in ('Poll', 'Option', 'Result', 'ControlFlow'):
                g = _first_generic(cur)
                if head.split('::')[-1] == 'ControlFlow':
                    # ControlFlow<B, C>: Continue payload is the second generic; not needed here
                    return None
                if g is None:
                    return None
                if i + 1 < len(proj) and proj[i + 1] == '.0':
                    i += 2
                else:
                    i += 1
                cur = strip_ty(g)
                continue
            return None
        return None
    return cur


def const_val(c):
    """operand constant -> ('const', int) | ('str', s) | ('item', path) | ('k', text)"""
    if 'item' in c and not c.get('promoted'):
        return ('item', c['item'])
    s = c['c']
    m = re.match(r'^const (.*)$', s, re.S)
    v = m.group(1) if m else s
    if v == 'true':
        return ('const', 1)
    if v == 'false':
        return ('const', 0)
    m2 = re.match(r'^(-?\d+)_([iu](8|16|32|64|128|size))$', v)
    if m2:
        return ('const', int(m2.group(1)))
    if v.startswith('"') and v.endswith('"'):
        return ('str', v[1:-1])
    if 'fd' in c:
        return ('fnitem', c['fd'])
    return ('k', v)


class Fn:
    """Wrapper around one body record."""

    def __init__(self, d):
        self.d = d
        self.name = d['f']
        self.B = d['blocks']
        self.locals = d['locals']
        self.argc = d['argc']
        self._preds = None
        self._defs = None
        self._dom = None
        self.varnames = {}
        self.upvars = {}   # closure/coroutine captures: field index of _1 -> source name
        for n, p in d['names']:
            if not p['p']:
                self.varnames.setdefault(p['l'], n)
            elif p['l'] == 1 and d.get('kind') == 'closure':
                fl = [x for x in p['p'] if x != '*']
                if len(fl) == 1 and fl[0].startswith('.'):
                    self.upvars.setdefault(int(fl[0][1:]), n)

    def succs(self, bi):
        t = self.B[bi]['t']
        k = t['k']
        if k == 'goto':
            return [t['t']]
        if k == 'call':
            return [t['t']] if t['t'] is not None else []
        if k == 'switch':
            out = []
            for _, x in t['ts']:
                if x not in out:
                    out.append(x)
            if t['o'] not in out:
                out.append(t['o'])
            return out
        return []

    @property
    def preds(self):
        if self._preds is None:
            p = collections.defaultdict(list)
            for i in range(len(self.B)):
                for s in self.succs(i):
                    p[s].append(i)
            self._preds = p
        return self._preds

    def reachable(self, start=0, avoid=(), avoid_edges=()):
        """blocks reachable from start without entering blocks in avoid / crossing avoid_edges"""
        avoid = set(avoid)
        avoid_edges = set(avoid_edges)
        seen = set()
        if start in avoid:
            return seen
        work = [start]
        seen.add(start)
        while work:
            b = work.pop()
            for s in self.succs(b):
                if s in avoid or (b, s) in avoid_edges or s in seen:
                    continue
                seen.add(s)
                work.append(s)
        return seen

    def calls(self):
        for i, b in enumerate(self.B):
            if b['t']['k'] == 'call':
                yield i, b['t']

    def ret_blocks(self):
        return [i for i, b in enumerate(self.B) if b['t']['k'] == 'ret']

    @property
    def defs(self):
        """local -> list of ('stmt', bi, si, rv) | ('call', bi, term)  (whole-local assignments only)"""
        if self._defs is None:
            d = collections.defaultdict(list)
            for i, b in enumerate(self.B):
                for si, (dst, rv) in enumerate(b['s']):
                    if not dst['p']:
                        d[dst['l']].append(('stmt', i, si, rv))
                    else:
                        d[dst['l']].append(('partial', i, si, rv, dst['p']))
                t = b['t']
                if t['k'] == 'call':
                    dd = t['dest']
                    if not dd['p']:
                        d[dd['l']].append(('call', i, t))
                    else:
                        d[dd['l']].append(('partialcall', i, t))
            self._defs = d
        return self._defs

    def local_ty(self, l):
        return self.locals[l]['ty']

    def name_of(self, l):
        return self.varnames.get(l, '_%d' % l)

    # ---- flow-insensitive origin chase (used by inventories and simple def-use rules)
    def origins(self, op, depth=0, seen=None):
        """set of symbolic origins for an operand: ('call',bi) ('arg',n) ('const',..) ('agg',bi,si) ('field', origin, proj) ('unknown',)"""
        if seen is None:
            seen = set()
        if 'c' in op:
            return {const_val(op)}
        l = op['l']
        proj = tuple(p for p in op['p'] if p != '*')
        base = self._origins_local(l, depth, seen)
        if not proj:
            return base
        return {('field', b, proj) for b in base}

    def _origins_local(self, l, depth, seen):
        if l in seen or depth > 12:
            return {('local', l)}
        seen = seen | {l}
        out = set()
        if 1 <= l <= self.argc:
            out.add(('arg', l))
        for d in self.defs.get(l, ()):
            if d[0] == 'call':
                if d[2]['fd'] in ORIGIN_TRANSPARENT and d[2]['args'] and depth < 12:
                    out |= self.origins(d[2]['args'][0], depth + 1, seen)
                else:
                    out.add(('call', d[1]))
            elif d[0] == 'stmt':
                rv = d[3]
                k = rv['k']
                if k in ('use', 'cast'):
                    out |= self.origins(rv['o'], depth + 1, seen)
                elif k in ('ref', 'rawptr'):
                    out |= self.origins({'l': rv['pl']['l'], 'p': rv['pl']['p']}, depth + 1, seen)
                elif k == 'agg':
                    out.add(('agg', d[1], d[2]))
                elif k == 'discr':
                    out |= {('discr', o) for o in self.origins({'l': rv['pl']['l'], 'p': rv['pl']['p']}, depth + 1, seen)}
                elif k == 'un':
                    out |= {('not', o) for o in self.origins(rv['a'], depth + 1, seen)}
                elif k == 'bin':
                    out.add(('bin', d[1], d[2]))
                else:
                    out.add(('other', d[1], d[2]))
        if not out:
            out.add(('local', l))
        return out

    # ---- dominators (blocks)
    def dominators(self):
        if self._dom is None:
            n = len(self.B)
            reach = self.reachable(0)
            order = []
            seen = set()

            def dfs(s):
                stack = [(s, iter(self.succs(s)))]
                seen.add(s)
                while stack:
                    node, it = stack[-1]
                    adv = False
                    for x in it:
                        if x not in seen:
                            seen.add(x)
                            stack.append((x, iter(self.succs(x))))
                            adv = True
                            break
                    if not adv:
                        order.append(node)
                        stack.pop()
            dfs(0)
            rpo = order[::-1]
            idx = {b: i for i, b in enumerate(rpo)}
            idom = {0: 0}
            changed = True
            while changed:
                changed = False
                for b in rpo[1:]:
                    ps = [p for p in self.preds[b] if p in idom]
                    if not ps:
                        continue
                    new = ps[0]
                    for p in ps[1:]:
                        a, c = p, new
                        while a != c:
                            while idx[a] > idx[c]:
                                a = idom[a]
                            while idx[c] > idx[a]:
                                c = idom[c]
                        new = a
                    if idom.get(b) != new:
                        idom[b] = new
                        changed = True
            self._dom = idom
        return self._dom

    def dominates(self, a, b):
        idom = self.dominators()
        if b not in idom:
            return False
        while True:
            if a == b:
                return True
            if b == 0:
                return False
            b = idom[b]


# ----------------------------------------------------------------------------- call graph


class Program:
    """All bodies of one or more crates + call graph."""

    def __init__(self, facts, crates=('c2pa',)):
        self.facts = facts
        self.bodies = {}
        self.crate_of = {}
        self.adts = {}
        self.statics = {}
        self.impls = []
        for c in crates:
            cr = facts.crate(c)
            for k, v in cr['bodies'].items():
                self.bodies[k] = v
                self.crate_of[k] = c
            self.adts.update(cr['adts'])
            DEFAULT_ADTS.update(cr['adts'])
            self.statics.update(cr['statics'])
            self.impls.extend(cr['impls'])
        self._fn = {}
        self._cg = None
        self._rcg = None
        self.trait_impls = collections.defaultdict(list)  # trait method path -> [impl method path]
        for im in self.impls:
            for tm, imeth in im['methods']:
                self.trait_impls[tm].append(imeth)

    def fn(self, name):
        f = self._fn.get(name)
        if f is None:
            f = Fn(self.bodies[name])
            self._fn[name] = f
        return f

    def has(self, name):
        return name in self.bodies

    def fns(self, kinds=('fn', 'assoc', 'closure')):
        for k, v in self.bodies.items():
            if v['kind'] in kinds:
                yield k

    def callee_targets(self, t):
        """resolved workspace targets of a call terminator"""
        out = []
        fd = t.get('r') or t['fd']
        if fd in self.bodies:
            out.append(fd)
        elif t['fd'] in self.trait_impls and not t.get('r'):
            out.extend(x for x in self.trait_impls[t['fd']] if x in self.bodies)
        elif t.get('r') and t['r'] not in self.bodies and t['fd'] in self.bodies:
            out.append(t['fd'])
        return out

    @property
    def cg(self):
        if self._cg is None:
            g = collections.defaultdict(set)
            for name, d in self.bodies.items():
                if d['kind'] not in ('fn', 'assoc', 'closure'):
                    continue
                e = g[name]
                for b in d['blocks']:
                    for dst, rv in b['s']:
                        if rv['k'] == 'agg' and 'closure' in rv and rv['closure'] in self.bodies:
                            e.add(rv['closure'])
                        for o in rv_operands(rv):
                            if 'fd' in o and o['fd'] in self.bodies:
                                e.add(o['fd'])
                            if 'closure' in o and o['closure'] in self.bodies:
                                e.add(o['closure'])
                    t = b['t']
                    if t['k'] == 'call':
                        for x in self.callee_targets(t):
                            e.add(x)
                        for a in t['args']:
                            if 'fd' in a and a['fd'] in self.bodies:
                                e.add(a['fd'])
                            if 'l' in a:
                                ld = d['locals'][a['l']]
                                if ld.get('closure') in self.bodies:
                                    e.add(ld['closure'])
                                if ld.get('fnitem_d') in self.bodies:
                                    e.add(ld['fnitem_d'])
            self._cg = g
        return self._cg

    @property
    def rcg(self):
        if self._rcg is None:
            r = collections.defaultdict(set)
            for a, bs in self.cg.items():
                for b in bs:
                    r[b].add(a)
            self._rcg = r
        return self._rcg

    def reach_from(self, roots, stop=()):
        seen = set(r for r in roots if r in self.bodies)
        work = list(seen)
        parent = {r: None for r in seen}
        while work:
            x = work.pop()
            for y in self.cg.get(x, ()):
                if y in seen or y in stop:
                    continue
                seen.add(y)
                parent[y] = x
                work.append(y)
        return seen, parent

    def callers_closure(self, targets):
        seen = set(targets)
        work = list(targets)
        while work:
            x = work.pop()
            for y in self.rcg.get(x, ()):
                if y not in seen:
                    seen.add(y)
                    work.append(y)
        return seen

    def path_to(self, parent, x):
        p = []
        while x is not None:
            p.append(x)
            x = parent.get(x)
        return p[::-1]

    def sccs(self, nodes=None):
        g = self.cg
        nodes = list(nodes if nodes is not None else g.keys())
        nodeset = set(nodes)
        idx = {}
        low = {}
        st = []
        on = set()
        res = []
        n = [0]
        for root in nodes:
            if root in idx:
                continue
            stack = [(root, iter(sorted(x for x in g.get(root, ()) if x in nodeset)))]
            idx[root] = low[root] = n[0]; n[0] += 1; st.append(root); on.add(root)
            while stack:
                v, it = stack[-1]
                adv = False
                for w in it:
                    if w not in idx:
                        idx[w] = low[w] = n[0]; n[0] += 1; st.append(w); on.add(w)
                        stack.append((w, iter(sorted(x for x in g.get(w, ()) if x in nodeset))))
                        adv = True
                        break
                    elif w in on:
                        low[v] = min(low[v], idx[w])
                if adv:
                    continue
                stack.pop()
                if stack:
                    u = stack[-1][0]
                    low[u] = min(low[u], low[v])
                if low[v] == idx[v]:
                    comp = []
                    while True:
                        w = st.pop(); on.discard(w); comp.append(w)
                        if w == v:
                            break
                    if len(comp) > 1 or v in g.get(v, ()):
                        res.append(sorted(comp))
        return res


def rv_operands(rv):
    k = rv['k']
    if k in ('use', 'cast'):
        return [rv['o']]
    if k == 'bin':
        return [rv['a'], rv['b']]
    if k == 'un':
        return [rv['a']]
    if k == 'agg':
        return rv['ops']
    return []


# ----------------------------------------------------------------------------- E1 engine

ORIGIN_TRANSPARENT = {
    'std::ops::Deref::deref', 'std::ops::DerefMut::deref_mut', 'std::convert::AsRef::as_ref', 'std::borrow::Borrow::borrow',
    'std::option::Option::<T>::as_ref', 'std::option::Option::<T>::as_mut', 'std::option::Option::<T>::as_deref', 'std::result::Result::<T, E>::as_ref',
    'std::ops::Try::branch', 'std::vec::Vec::<T, A>::as_slice', 'std::string::String::as_str',
}
IDENTITY_CALLS = {
    'std::option::Option::<T>::as_ref', 'std::option::Option::<T>::as_mut', 'std::option::Option::<T>::as_deref',
    'std::option::Option::<T>::as_deref_mut', 'std::result::Result::<T, E>::as_ref', 'std::result::Result::<T, E>::as_mut',
    'std::ops::Deref::deref', 'std::ops::DerefMut::deref_mut', 'std::convert::AsRef::as_ref', 'std::borrow::Borrow::borrow',
    'std::result::Result::<T, E>::as_deref', 'std::convert::Into::into', 'std::convert::From::from',
    'std::future::IntoFuture::into_future', 'std::pin::Pin::<Ptr>::new_unchecked', 'std::pin::Pin::<Ptr>::new',
}
TRY_BRANCH = 'std::ops::Try::branch'
FROM_RESIDUAL = 'std::ops::FromResidual::from_residual'
BOOL_QUERIES = {  # callee -> ('ok' polarity)
    'std::result::Result::<T, E>::is_ok': True, 'std::result::Result::<T, E>::is_err': False,
    'std::option::Option::<T>::is_some': True, 'std::option::Option::<T>::is_none': False,
}


def freeze(v):
    if isinstance(v, (list, tuple)):
        return tuple(freeze(x) for x in v)
    if isinstance(v, dict):
        return tuple(sorted((k, freeze(x)) for k, x in v.items()))
    return v


def mentions(v, site):
    if v == site:
        return True
    if isinstance(v, tuple):
        return any(mentions(x, site) for x in v)
    return False


def call_sites_in(v, out=None):
    if out is None:
        out = []
    if isinstance(v, tuple):
        if len(v) == 2 and v[0] == 'call' and isinstance(v[1], int):
            out.append(v[1])
        else:
            for x in v:
                call_sites_in(x, out)
    return out


class Engine:
    """Path-sensitive exploration of (block x facts about tracked atoms x monitor state).

    track: predicate over call-site block index / atom deciding which guard outcomes are
    remembered (slicing). Untracked branches are explored both ways (only adds paths).
    """

    def __init__(self, fn, track_calls=None, track_atom=None, maxstates=300000, identity=IDENTITY_CALLS):
        self.fn = fn
        self.B = fn.B
        self.locals = fn.locals
        self.maxstates = maxstates
        self.identity = identity
        self.full = track_calls is None and track_atom is None
        self.track_calls = track_calls or (lambda bi, t: False)
        self.track_atom = track_atom or (lambda a: False)
        self._tc_cache = {}
        # locals relevant to branching: backward closure from switch discriminants (+ _0)
        rel = {0}
        for b in self.B:
            t = b['t']
            if t['k'] == 'switch' and 'l' in t['d']:
                rel.add(t['d']['l'])
        changed = True
        while changed:
            changed = False
            for b in self.B:
                for dst, rv in b['s']:
                    if dst['p'] or dst['l'] not in rel:
                        continue
                    for o in rv_operands(rv):
                        if 'l' in o and o['l'] not in rel:
                            rel.add(o['l']); changed = True
                    if rv['k'] in ('discr', 'ref') and rv['pl']['l'] not in rel:
                        rel.add(rv['pl']['l']); changed = True
                t = b['t']
                if t['k'] == 'call' and not t['dest']['p'] and t['dest']['l'] in rel:
                    if t['fd'] in self.identity or t['fd'] == TRY_BRANCH or t['fd'] in BOOL_QUERIES:
                        for a in t['args'][:1]:
                            if 'l' in a and a['l'] not in rel:
                                rel.add(a['l']); changed = True
        self.rel = rel
        self._liveness()

    def _liveness(self):
        """live-in sets of `rel` locals per block (backward dataflow); env is pruned to them so that paths merge"""
        B = self.B
        n = len(B)
        use = [set() for _ in range(n)]
        kill = [set() for _ in range(n)]
        rel = self.rel
        for i, b in enumerate(B):
            u, k = use[i], kill[i]

            def rd(l):
                if l in rel and l not in k:
                    u.add(l)
            for dst, rv in b['s']:
                for o in rv_operands(rv):
                    if 'l' in o:
                        rd(o['l'])
                if 'pl' in rv:
                    rd(rv['pl']['l'])
                if dst['p']:
                    rd(dst['l'])
                else:
                    k.add(dst['l'])
            t = b['t']
            if t['k'] == 'call':
                for a in t['args']:
                    if 'l' in a:
                        rd(a['l'])
                if 'ind' in t and 'l' in t['ind']:
                    rd(t['ind']['l'])
                if t['dest']['p']:
                    rd(t['dest']['l'])
                else:
                    k.add(t['dest']['l'])
            elif t['k'] == 'switch':
                if 'l' in t['d']:
                    rd(t['d']['l'])
            elif t['k'] == 'ret':
                rd(0)
            elif t['k'] == 'goto' and 'drop' in t:
                pass
        live_in = [set() for _ in range(n)]
        succs = [self.fn.succs(i) for i in range(n)]
        changed = True
        while changed:
            changed = False
            for i in range(n - 1, -1, -1):
                out = set()
                for s_ in succs[i]:
                    out |= live_in[s_]
                new = use[i] | (out - kill[i])
                if new != live_in[i]:
                    live_in[i] = new
                    changed = True
        self.live_in = live_in

    # -- tracking
    def call_tracked(self, bi):
        if self.full:
            return True
        r = self._tc_cache.get(bi)
        if r is None:
            r = bool(self.track_calls(bi, self.B[bi]['t']))
            self._tc_cache[bi] = r
        return r

    def atom_tracked(self, a):
        if self.full:
            return True
        if a[0] == 'const':
            return True
        for s in call_sites_in(a):
            if self.call_tracked(s):
                return True
        return bool(self.track_atom(a))

    # -- evaluation
    def ev_op(self, o, env):
        if 'c' in o:
            return const_val(o)
        proj = tuple(p for p in o['p'] if p != '*')
        base = env.get(o['l'], ('local', o['l']))
        if not proj:
            return base
        if base[0] == 'variant':
            # projection into a known aggregate: as Variant#i . n
            ops = base[3]
            fidx = [p for p in proj if p.startswith('.')]
            if len(fidx) == 1:
                i = int(fidx[0][1:])
                if i < len(ops):
                    return ops[i]
        if base[0] == 'place':
            return ('place', base[1], base[2] + proj)
        return ('place', base, proj)

    def ev_rv(self, rv, env):
        k = rv['k']
        if k in ('use', 'cast'):
            return self.ev_op(rv['o'], env)
        if k in ('ref', 'rawptr'):
            p = rv['pl']
            return self.ev_op({'l': p['l'], 'p': p['p']}, env)
        if k == 'discr':
            p = rv['pl']
            inner = self.ev_op({'l': p['l'], 'p': p['p']}, env)
            if inner[0] == 'variant':
                return ('const', inner[4])
            return ('discr', inner)
        if k == 'un' and rv['op'] == 'Not':
            a = self.ev_op(rv['a'], env)
            if a[0] == 'const':
                return ('const', 0 if a[1] else 1)
            if a[0] == 'not':
                return a[1]
            return ('not', a)
        if k == 'bin' and rv['op'] in ('Eq', 'Ne', 'Lt', 'Le', 'Gt', 'Ge'):
            a = self.ev_op(rv['a'], env); b = self.ev_op(rv['b'], env)
            if a[0] == 'const' and b[0] == 'const':
                x, y = a[1], b[1]
                r = {'Eq': x == y, 'Ne': x != y, 'Lt': x < y, 'Le': x <= y, 'Gt': x > y, 'Ge': x >= y}[rv['op']]
                return ('const', 1 if r else 0)
            return ('cmp', rv['op'], a, b)
        if k == 'agg' and 'variant' in rv:
            return ('variant', rv['adt'], rv['variant'], tuple(self.ev_op(o, env) for o in rv['ops']), rv.get('vi', 0))
        return None

    def keep(self, v):
        if self.full:
            return True
        if v[0] in ('const', 'str', 'item'):
            return True
        if v[0] == 'variant':
            return True
        return self.atom_tracked(v)

    def value_ty(self, v):
        if v[0] == 'call':
            d = self.B[v[1]]['t']['dest']
            if not d['p']:
                return self.locals[d['l']]['ty']
        if v[0] == 'local':
            return self.locals[v[1]]['ty']
        if v[0] == 'place':
            bt = self.value_ty(v[1])
            if bt is None:
                return None
            return peel_payload(bt, v[2]) or field_ty(bt, v[2])
        return None

    def norm_discr(self, inner):
        """('discr', X) -> (atom, mapping int->value) ; Result/Option become ('ok', X) booleans"""
        if inner[0] == 'try':
            # ControlFlow from Try::branch: 0 = Continue (ok), 1 = Break
            return ('ok', inner[1]), {0: 1, 1: 0}
        t = self.value_ty(inner)
        if t:
            if is_result_ty(t):
                return ('ok', inner), {0: 1, 1: 0}
            if is_option_ty(t):
                return ('ok', inner), {0: 0, 1: 1}
        return ('discr', inner), None

    def succ(self, bi, env, facts):
        b = self.B[bi]
        env = dict(env)
        for dst, rv in b['s']:
            if dst['p']:
                # partial write invalidates knowledge of the local
                env.pop(dst['l'], None)
                continue
            if dst['l'] not in self.rel:
                continue
            v = self.ev_rv(rv, env)
            if v is None or not self.keep(v):
                env.pop(dst['l'], None)
            else:
                env[dst['l']] = v
        t = b['t']
        k = t['k']
        if k == 'goto':
            yield t['t'], env, facts
            return
        if k in ('ret', 'stop'):
            return
        if k == 'call':
            site = ('call', bi)
            if any(mentions(a, site) for a in facts) or any(mentions(v, site) for v in env.values()):
                facts = {a: v for a, v in facts.items() if not mentions(a, site)}
                env = {l: v for l, v in env.items() if not mentions(v, site)}
            d = t['dest']
            if not d['p'] and d['l'] in self.rel:
                fd = t['fd']
                val = None
                if (fd in self.identity) and t['args']:
                    val = self.ev_op(t['args'][0], env)
                    if val[0] in ('const', 'str', 'item', 'variant'):
                        val = None if fd.startswith('std::convert') else val
                elif fd == TRY_BRANCH and t['args']:
                    val = ('try', self.ev_op(t['args'][0], env))
                elif fd in BOOL_QUERIES and t['args']:
                    inner = self.ev_op(t['args'][0], env)
                    val = ('ok', inner) if BOOL_QUERIES[fd] else ('not', ('ok', inner))
                if val is None:
                    val = site
                if self.keep(val):
                    env[d['l']] = val
                else:
                    env.pop(d['l'], None)
            elif not d['p']:
                env.pop(d['l'], None)
            else:
                env.pop(d['l'], None)
            if t['t'] is not None:
                yield t['t'], env, facts
            return
        if k == 'switch':
            d = self.ev_op(t['d'], env)
            neg = False
            while d[0] == 'not':
                d = d[1]; neg = not neg
            mapping = None
            if d[0] == 'discr':
                d, mapping = self.norm_discr(d[1])
            if d[0] == 'const':
                val = d[1]
                if neg:
                    val = 0 if val else 1
                for v, tb in t['ts']:
                    if v == val:
                        yield tb, env, facts
                        return
                yield t['o'], env, facts
                return
            targets = t['ts']
            if not self.atom_tracked(d):
                seen = set()
                for v, tb in targets:
                    if tb not in seen:
                        seen.add(tb); yield tb, env, facts
                if t['o'] not in seen:
                    yield t['o'], env, facts
                return
            isbool = d[0] in ('ok', 'cmp') or ('l' in t['d'] and self.locals[t['d']['l']]['ty'] == 'bool') or (d[0] == 'call' and self.value_ty(d) == 'bool')
            taken = []
            cur = facts.get(d)
            for v, tb in targets:
                vv = mapping[v] if mapping and v in mapping else v
                if neg:
                    vv = 0 if vv else 1
                taken.append(vv)
                if cur is not None:
                    if isinstance(cur, tuple):
                        if vv in cur[1]:
                            continue          # this value was excluded by an earlier `otherwise` edge
                    elif cur != vv:
                        continue
                f2 = dict(facts); f2[d] = vv
                yield tb, env, f2
            if isbool:
                rest = [x for x in (0, 1) if x not in taken]
                for vv in rest:
                    if cur is not None and not isinstance(cur, tuple) and cur != vv:
                        continue
                    if isinstance(cur, tuple) and vv in cur[1]:
                        continue
                    f2 = dict(facts); f2[d] = vv
                    yield t['o'], env, f2
            else:
                if cur is not None and not isinstance(cur, tuple):
                    if cur in taken:
                        return
                    yield t['o'], env, facts
                    return
                f2 = dict(facts)
                excl = tuple(sorted(set(taken) | (set(cur[1]) if isinstance(cur, tuple) else set())))
                f2[d] = ('else', excl)
                yield t['o'], env, f2
            return

    def explore(self, monitor=None, start_block=0, start_env=None, start_facts=None, forget=False):
        """monitor(bi, block, env, facts, mstate) -> (new_mstate, [labels]) is evaluated on entry to each block with
        the facts known there.  Returns hits (label, bi, facts, env, key).  A monitor state of None prunes the path.
        forget=True drops facts about call sites whose result value is no longer held by any live local (the
        monitor state is expected to remember what it needs); this only merges states."""
        hits = []
        hitkeys = set()
        m0 = monitor.init if monitor is not None and hasattr(monitor, 'init') else 0
        self.parent = {}
        work = []
        self._n = 0

        def visit(nb, env, facts, ms, pkey):
            if monitor is not None:
                ms2, labels = monitor(nb, self.B[nb], env, facts, ms)
            else:
                ms2, labels = ms, ()
            if forget and facts:
                live_sites = set()
                for v in env.values():
                    call_sites_in(v, live_sites_list := [])
                    live_sites.update(live_sites_list)
                f2 = {}
                for a, v in facts.items():
                    cs = call_sites_in(a)
                    if not cs or any(c in live_sites for c in cs):
                        f2[a] = v
                pruned = f2
            else:
                pruned = facts
            key = (nb, frozenset((k, freeze(v)) for k, v in env.items()), frozenset((freeze(k), freeze(v)) for k, v in pruned.items()), freeze(ms2))
            for lab in labels or ():
                hk = (freeze(lab), nb, key)
                if hk in hitkeys:
                    continue
                hitkeys.add(hk)
                hits.append((lab, nb, dict(facts), dict(env), (pkey, nb)))
            if ms2 is None:
                return
            if key in self.parent:
                return
            self.parent[key] = pkey
            work.append((nb, env, pruned, ms2, key))

        visit(start_block, dict(start_env or {}), dict(start_facts or {}), m0, None)
        n = 0
        while work:
            bi, env, facts, ms, key0 = work.pop()
            n += 1
            if n > self.maxstates:
                self.states = n
                raise RuntimeError('state explosion in ' + self.fn.name)
            for nb, e2, f2 in self.succ(bi, env, facts):
                li = self.live_in[nb]
                if len(e2) and any(k not in li for k in e2):
                    e2 = {k: v for k, v in e2.items() if k in li}
                visit(nb, e2, f2, ms, key0)
        self.states = n
        return hits

    def path_of(self, key):
        """key is either a state key or a hit key (parent_state_key, block)"""
        p = []
        if key is not None and len(key) == 2:
            p.append(key[1])
            key = key[0]
        while key is not None:
            p.append(key[0])
            key = self.parent[key]
        return p[::-1]

    def feasible(self, path):
        """replay a concrete block path with full tracking; returns (True, None) or (False, conflicting atom)"""
        full = Engine(self.fn, identity=self.identity)
        env, facts = {}, {}
        for i, bi in enumerate(path[:-1]):
            nxt = path[i + 1]
            cands = [(nb, e2, f2) for nb, e2, f2 in full.succ(bi, env, facts) if nb == nxt]
            if not cands:
                t = self.B[bi]['t']
                if t['k'] == 'switch':
                    e3 = dict(env)
                    for dst, rv in self.B[bi]['s']:
                        if dst['p']:
                            continue
                        v = full.ev_rv(rv, e3)
                        if v is None:
                            e3.pop(dst['l'], None)
                        else:
                            e3[dst['l']] = v
                    d = full.ev_op(t['d'], e3)
                    while d[0] == 'not':
                        d = d[1]
                    if d[0] == 'discr':
                        d, _ = full.norm_discr(d[1])
                    return False, d
                return False, ('unknown',)
            nb, env, facts = cands[0]
        return True, None

    def final_env(self, path):
        full = Engine(self.fn, identity=self.identity)
        env, facts = {}, {}
        for i, bi in enumerate(path[:-1]):
            nxt = path[i + 1]
            cands = [(nb, e2, f2) for nb, e2, f2 in full.succ(bi, env, facts) if nb == nxt]
            if not cands:
                return None, None
            nb, env, facts = cands[0]
        return env, facts


def classify_ret(fn, v):
    """symbolic value of _0 -> 'Ok' | 'Err' | 'Some' | 'None' | 'residual' | 'call:<fd>' | 'const:<n>' | variant name | '?'"""
    if v is None:
        return '?'
    if v[0] == 'variant':
        return v[2]
    if v[0] == 'const':
        return 'const:%d' % v[1]
    if v[0] == 'call':
        t = fn.B[v[1]]['t']
        if t['fd'] == FROM_RESIDUAL:
            return 'residual'
        return 'call:' + t['fd']
    if v[0] in ('item', 'str', 'k'):
        return '%s:%s' % (v[0], v[1])
    return '?'


# ----------------------------------------------------------------------------- guards


class CallGuard:
    """fact "the result of a call matching `pat` had outcome `want`" where want in
    true|false|ok|err|some|none"""

    def __init__(self, pat, want, argpred=None, name=None, use_r=False):
        self.re = re.compile(pat)
        self.want = want
        self.argpred = argpred
        self.name = name or ('%s=%s' % (pat, want))
        self.use_r = use_r

    def matches_call(self, fn, bi, t):
        s = t['f'] if not self.use_r else (t.get('r') or t['f'])
        if not (self.re.search(t['f']) or self.re.search(t['fd']) or (t.get('r') and self.re.search(t['r']))):
            return False
        if self.argpred and not self.argpred(fn, bi, t):
            return False
        return True

    def holds(self, fn, facts):
        """list of call-site blocks establishing this guard in facts"""
        out = []
        for a, v in facts.items():
            site = None
            pol = None
            if a[0] == 'call':
                site = a[1]
                pol = {'true': 1, 'false': 0}.get(self.want)
            elif a[0] == 'ok' and a[1][0] == 'call':
                site = a[1][1]
                pol = {'ok': 1, 'some': 1, 'err': 0, 'none': 0}.get(self.want)
            if site is None or pol is None:
                continue
            if v != pol:
                continue
            if self.matches_call(fn, site, fn.B[site]['t']):
                out.append(site)
        return out


class LocalGuard:
    """fact about a named local / argument: want in ok|some|err|none|true|false"""

    def __init__(self, varname, want, name=None, variant_index=None):
        self.var = varname
        self.want = want
        self.variant_index = variant_index
        self.name = name or ('%s is %s' % (varname, want))

    def matches_call(self, fn, bi, t):
        return False

    def _is(self, fn, a):
        if a[0] == 'local':
            return fn.name_of(a[1]) == self.var
        if a[0] == 'place' and a[1][0] == 'local':
            return fn.name_of(a[1][1]) == self.var
        return False

    def track_atom(self, fn, a):
        if a[0] in ('ok', 'discr'):
            return self._is(fn, a[1])
        return self._is(fn, a)

    def holds(self, fn, facts):
        out = []
        for a, v in facts.items():
            if a[0] == 'discr' and self._is(fn, a[1]) and isinstance(self.want, str) and self.want.startswith('variant:') and self.variant_index is not None:
                if v == self.variant_index:
                    out.append(1000000)
                continue
            if a[0] == 'ok' and self._is(fn, a[1]):
                pol = {'ok': 1, 'some': 1, 'err': 0, 'none': 0}.get(self.want)
                if pol is not None and v == pol:
                    out.append(1000000 + a[1][1] if a[1][0] == 'local' else 1000000)
            elif self._is(fn, a):
                pol = {'true': 1, 'false': 0}.get(self.want)
                if pol is not None and v == pol:
                    out.append(1000000)
        return out


def track_for(guards):
    def tc(bi, t, _g=guards):
        return any(g.matches_call(_ENG_FN[0], bi, t) for g in _g)
    return tc


_ENG_FN = [None]


def make_engine(fn, guards, extra_track=None, maxstates=300000):
    def tc(bi, t):
        if any(g.matches_call(fn, bi, t) for g in guards):
            return True
        if extra_track and extra_track(bi, t):
            return True
        return False
    return Engine(fn, track_calls=tc, maxstates=maxstates)


def describe_atom(fn, atom):
    if atom[0] == 'call':
        t = fn.B[atom[1]]['t']
        return '%s@%s' % (short(t['fd']), loc(t['span']))
    if atom[0] in ('discr', 'not', 'ok', 'try'):
        return atom[0] + '(' + describe_atom(fn, atom[1]) + ')'
    if atom[0] == 'place':
        return describe_atom(fn, atom[1]) + ''.join(atom[2])
    if atom[0] == 'cmp':
        return '%s(%s,%s)' % (atom[1], describe_atom(fn, atom[2]), describe_atom(fn, atom[3]))
    if atom[0] == 'local':
        return fn.name_of(atom[1])
    if atom[0] == 'variant':
        return '%s::%s' % (short(atom[1]), atom[2])
    return str(atom[1]) if len(atom) > 1 else str(atom)


def describe_path(fn, path, maxn=14):
    """compress a block path into the source lines of its call/switch terminators"""
    out = []
    last = None
    for bi in path:
        t = fn.B[bi]['t']
        if t['k'] in ('call', 'switch', 'ret') and 'span' in t:
            l = t['span'].get('l')
            if l != last:
                out.append(l); last = l
    if len(out) > maxn:
        out = out[:maxn // 2] + ['...'] + out[-maxn // 2:]
    return out
