"""C09 Media content preserved: BMFF offset fix-up is called, covers the offset-bearing boxes, is guarded; TIFF/RIFF/ID3 writers go through the copying routines."""
import re
from lib import loc
from terms import Terms
import oblig
import C07
import C08

EXPLANATION = ("Must-call and guard rules. (D1) every function that rewrites a BMFF asset around the C2PA box (4 call sites of adjust_known_offsets: write_cai, remove, XMP embed, free-box "
               "helper): each Ok return after the shift is computed is reached only with offset_adjust == 0 or after adjust_known_offsets(output, .., offset_adjust) on the output stream, "
               "and offset_adjust is computed from the box sizes. (D2) adjust_known_offsets looks up every offset-bearing box kind of the frozen list (stco, co64, iloc, tfhd, tfra, saio); "
               "each iloc rewrite is dominated by construction_method == 0 (offsets relative to idat/items are not file offsets); tfhd/saio rewrites are dominated by their flag tests. "
               "(D3) a shift may only be applied to offsets that address bytes located after the manifest: every offset rewrite must be dominated by a comparison of that offset with a "
               "position. On the pinned tree adjust_known_offsets has no position to compare with and shifts every entry -- a genuine defect when media data precedes the C2PA box "
               "(replay R8), listed as a known finding. (D4) TIFF writers go through TiffCloner::clone_c2pa_mode / tiff_clone_with_tags, RIFF writers through inject_c2pa and "
               "ChunkContents::write, ID3 writers re-add every non-C2PA frame (shared with C07-D4). That bytes, order and offsets are in fact preserved is not decided.")
RULE = "obligation = (writer, Ok return, fix-up call | zero shift) / (fix-up, box kind, lookup) / (rewrite site, guard)"
B = 'asset_handlers::bmff_io::'
ADJ = B + 'adjust_known_offsets'
BOX_PATHS = ['/moov/trak/mdia/minf/stbl/stco', '/moov/trak/mdia/minf/stbl/co64', '/meta/iloc', '/moof/traf/tfhd', '/mfra/tfra', '/moov/trak/mdia/minf/stbl/saio']


def _base_stream(s):
    """underlying stream term of take()/into_inner()/by_ref() adaptors"""
    while True:
        m = re.match(r'^(Read::take|Take::into_inner|Read::by_ref)\((.*)$', s)
        if not m:
            return s
        rest, depth, out = m.group(2), 0, ''
        for ch in rest:
            if ch in '([{':
                depth += 1
            elif ch in ')]}':
                if depth == 0:
                    break
                depth -= 1
            if ch == ',' and depth == 0:
                break
            out += ch
        s = out


def positioned_copies(ctx, prog, T):
    """D5: every verbatim copy (std::io::copy) in the asset handlers reads from a source whose position was established on every path to it:
    a rewind / seek / stream_position / earlier copy on the SAME stream, or a freshly built Cursor.  (42 sites; a copy after rewinding the wrong
    stream drops or duplicates media bytes.)"""
    n = 0
    for name in prog.fns():
        if 'asset_handlers' not in name:
            continue
        fn = prog.fn(name)
        calls = list(fn.calls())
        for bi, t in calls:
            if t['fd'] != 'std::io::copy':
                continue
            n += 1
            ctx.analysed(name, 1)
            src = _base_stream(T.op_term(fn, t['args'][0]))
            if src.startswith('Cursor::new('):
                ctx.ob('C09-D5', name, 'io::copy from a fresh Cursor', 'position 0 by construction', True, site=loc(t['span']), nontrivial=False)
                continue
            pos = set(b2 for b2, t2 in calls if b2 != bi and t2['args'] and re.search(r'Seek::(rewind|seek|stream_position)$|^std::io::copy$', t2['fd']) and _base_stream(T.op_term(fn, t2['args'][0])) == src)
            ok = bi not in fn.reachable(0, avoid=pos)
            ctx.ob('C09-D5', name, 'io::copy(%s, ..)' % src[:40], 'source positioned on every path (rewind/seek/earlier copy on the same stream)', ok, site=loc(t['span']),
                   detail='' if ok else 'the copy source %s is read from wherever it happens to stand' % src[:60])
    ctx.floor('verbatim copy sites in the asset handlers', n, 35, rule='C09-D5')


def run(ctx):
    prog = ctx.prog(('c2pa',))
    T = Terms(prog)
    positioned_copies(ctx, prog, T)
    if not ctx.require(prog.has(ADJ), ADJ):
        return
    # ---- D1 callers
    callers = []
    for n in prog.fns():
        if 'bmff_io' not in n:
            continue
        fn = prog.fn(n)
        sites = [bi for bi, t in fn.calls() if t['fd'].endswith('bmff_io::adjust_known_offsets')]
        if sites:
            callers.append((n, fn, sites))
    ctx.floor('functions calling adjust_known_offsets', len(callers), 4, rule='C09-D1')
    for n, fn, sites in callers:
        calls = list(fn.calls())
        ctx.analysed(n, len(calls))
        for s in sites:
            t = fn.B[s]['t']
            adj = T.op_term(fn, t['args'][3]) if len(t['args']) > 3 else ''
            org = ' | '.join(sorted(set(T.origin_term(fn, o)[0] for o in fn.origins(t['args'][3])))) if len(t['args']) > 3 else ''
            ctx.ob('C09-D1', n, 'shift passed to adjust_known_offsets', 'derived from the C2PA/free box sizes (try_from of a length, difference or negation)',
                   re.search(r'try_from|len\(|size', org + adj, re.I) is not None, detail=(adj + ' <- ' + org)[:220], site=loc(t.get('span')))
            out = T.op_term(fn, t['args'][0])
            ctx.ob('C09-D1', n, 'stream passed to adjust_known_offsets', 'the output stream', 'output' in out, detail=out[:80], nontrivial=False)
        # Ok returns after the shift is known: reachable without the fix-up only on the shift == 0 edge.  The shift variable is identified
        # as the local that feeds the 4th argument of the fix-up call (through by-value copies), not by its name.
        def src_local(blk_i, op):
            if 'l' not in op or op.get('p'):
                return None
            cur = op['l']
            for _ in range(4):
                found = None
                for blk in fn.B:
                    for d2, r2 in blk['s']:
                        if d2['l'] == cur and not d2['p'] and r2['k'] == 'use' and 'l' in r2['o'] and not r2['o'].get('p') and fn.name_of(cur).startswith('_'):
                            found = r2['o']['l']
                if found is None:
                    break
                cur = found
            return cur
        shift_locals = set(x for x in (src_local(s_, fn.B[s_]['t']['args'][3]) for s_ in sites if len(fn.B[s_]['t']['args']) > 3) if x is not None)
        cs = []
        for cb, blk in enumerate(fn.B):
            for si, (dst, rv) in enumerate(blk['s']):
                if rv['k'] == 'bin' and rv['op'] in ('Eq', 'Ne'):
                    locs = [src_local(cb, o) for o in (rv['a'], rv['b'])]
                    consts = [T.op_term(fn, o) for o in (rv['a'], rv['b'])]
                    tt = blk['t']
                    if (set(locs) & shift_locals) and '0' in consts and tt['k'] == 'switch' and tt['d']['l'] == dst['l']:
                        zero = [x for v, x in tt['ts'] if v == 0]
                        if zero:
                            eq_t = tt['o'] if rv['op'] == 'Eq' else zero[0]
                            cs.append((cb, eq_t))
        zero_edges = set(cs)     # (cmp block, eq target): shift == 0
        okr = C07.ok_returns(fn)
        defs = [bi for bi, b in enumerate(fn.B) for dst, rv in b['s'] if not dst['p'] and dst['l'] in shift_locals]
        if not ctx.ob('C09-D1', n, 'shift value', 'is computed in the function', bool(defs), nontrivial=False):
            continue
        late = set()
        for d in defs:
            late |= fn.reachable(d)
        late_ok = [r for r in okr if r in late]
        bad = []
        for d in defs:
            r = fn.reachable(d, avoid=set(sites), avoid_edges=zero_edges)
            bad += [x for x in late_ok if x in r]
        tail = any(fn.B[x]['t']['dest']['l'] == 0 and not fn.B[x]['t']['dest']['p'] for x in sites)
        ctx.ob('C09-D1', n, 'Ok return after the C2PA box changed size', 'only with offset_adjust == 0 or after adjust_known_offsets', not bad and (bool(late_ok) or tail), detail='late Ok returns %s, reachable without fix-up %s, zero-shift tests %d' % (late_ok[:4], sorted(set(bad))[:4], len(cs)), site=loc(fn.d['span']))
    # ---- D2 coverage and guards inside the fix-up
    fn = prog.fn(ADJ)
    calls = list(fn.calls())
    ctx.analysed(ADJ, len(calls))
    gets = {}
    for bi, t in calls:
        if re.search(r'HashMap::<K, V, S[^>]*>::get$|HashMap::get$', t['fd']):
            m = re.search(r'"([^"]+)"', T.call_term(fn, bi))
            if m:
                gets[m.group(1)] = bi
    for p in BOX_PATHS:
        ctx.ob('C09-D2', ADJ, 'offset-bearing box ' + p, 'looked up and patched', p in gets)
    writes = [(bi, t) for bi, t in calls if re.search(r'WriteBytesExt::write_u(8|16|24|32|64)$', t['fd'])]
    adjw = [(bi, t, T.op_term(fn, t['args'][1]) if len(t['args']) > 1 else '') for bi, t in writes]
    ctx.floor('integer writes in adjust_known_offsets', len(writes), 8, rule='C09-D2')

    def region(path):
        g = gets.get(path)
        if g is None:
            return set()
        # blocks reachable from the lookup before the next lookup
        others = set(b for p2, b in gets.items() if p2 != path)
        return fn.reachable(fn.B[g]['t']['t'], avoid=others)
    cmps = C08.cmp_sites(fn, T)
    il = region('/meta/iloc')
    cm = [c for c in cmps if c[0] in il and re.search(r'construction_method', c[1] + c[2]) and '0' in (c[1], c[2])]
    ctx.ob('C09-D2', ADJ, 'iloc: construction_method == 0 tests', 'present (base offset and extent offset rewrites)', len(cm) >= 2, detail=str(len(cm)))
    niloc = 0
    for bi, t, term in adjw:
        if bi not in il:
            continue
        niloc += 1
        ok = any(fn.dominates(c[3], bi) and bi not in fn.reachable(c[4], avoid=(c[0],)) for c in cm)
        ctx.ob('C09-D2', ADJ, 'iloc offset rewrite', 'dominated by construction_method == 0 (only file offsets are shifted)', ok, site=loc(t.get('span')), detail=term[:80])
    ctx.floor('iloc rewrite sites', niloc, 4, rule='C09-D2')
    # ---- D3 position sensitivity (known finding on the pinned tree)
    params = [fn.name_of(i) for i in range(1, (fn.d.get('argc') or 0) + 1)]
    shifts = 0
    guarded = 0
    for b_i, b in enumerate(fn.B):
        for dst, rv in b['s']:
            if rv['k'] == 'bin' and rv['op'] in ('AddWithOverflow', 'SubWithOverflow', 'Add', 'Sub'):
                a, bb = T.op_term(fn, rv['a']), T.op_term(fn, rv['b'])
                if 'adjust' in a + bb and re.search(r'read_u(32|64)|offset', a + bb):
                    shifts += 1
                    # a comparison of the entry being shifted with something that is not a constant, dominating the shift
                    base = a if 'adjust' not in a else bb
                    for c in cmps:
                        if base and base in (c[1], c[2]) and not re.fullmatch(r'\d+', c[1] if c[2] == base else c[2]):
                            if fn.dominates(c[0], b_i):
                                guarded += 1
                                break
    # ordered comparisons too
    ordc = 0
    for b_i, b in enumerate(fn.B):
        for dst, rv in b['s']:
            if rv['k'] == 'bin' and rv['op'] in ('Lt', 'Le', 'Gt', 'Ge'):
                a, bb = T.op_term(fn, rv['a']), T.op_term(fn, rv['b'])
                if re.search(r'read_u(32|64)|offset', a + bb) and not re.fullmatch(r'-?\d+', a) and not re.fullmatch(r'-?\d+', bb) and 'adjust' not in a + bb:
                    ordc += 1
    # D6 direction: a negative shift is subtracted (by its absolute value), a positive one added -- at every site alike
    neg_tests = []
    for b_i, b in enumerate(fn.B):
        for dst, rv in b['s']:
            if rv['k'] == 'bin' and rv['op'] in ('Lt', 'Ge', 'Gt', 'Le') and b['t']['k'] == 'switch' and b['t']['d']['l'] == dst['l']:
                a, bb = T.op_term(fn, rv['a']), T.op_term(fn, rv['b'])
                zero = [x for v, x in b['t']['ts'] if v == 0]
                if not zero:
                    continue
                t_true, t_false = b['t']['o'], zero[0]
                if a == 'adjust' and bb == '0' and rv['op'] in ('Lt', 'Ge'):
                    neg_tests.append((b_i, t_true, t_false) if rv['op'] == 'Lt' else (b_i, t_false, t_true))      # (block, target when adjust < 0, target when adjust >= 0)
                elif a == '0' and bb == 'adjust' and rv['op'] in ('Gt', 'Le'):
                    neg_tests.append((b_i, t_true, t_false) if rv['op'] == 'Gt' else (b_i, t_false, t_true))
    ndir = 0
    for b_i, b in enumerate(fn.B):
        for dst, rv in b['s']:
            if rv['k'] == 'bin' and rv['op'] in ('AddWithOverflow', 'SubWithOverflow', 'Add', 'Sub'):
                a, bb = T.op_term(fn, rv['a']), T.op_term(fn, rv['b'])
                if 'adjust' in a + bb and re.search(r'read_u(32|64)|offset', a + bb):
                    sub = rv['op'].startswith('Sub')
                    doms = [(c, tn, tp) for c, tn, tp in neg_tests if fn.dominates(c, b_i)]
                    if not doms:
                        continue
                    c, tn, tp = max(doms, key=lambda x: x[0])
                    want = tn if sub else tp
                    other = tp if sub else tn
                    ok = fn.dominates(want, b_i) and b_i not in fn.reachable(other, avoid=(c,))
                    ndir += 1
                    ctx.ob('C09-D6', ADJ, 'entry %s |adjust|' % ('-' if sub else '+'), 'on the %s edge of `adjust < 0`' % ('true' if sub else 'false'), ok, site='block %d' % b_i, detail='%s(%s, %s)' % (rv['op'], a[:40], bb[:40]))
    ctx.floor('shift sites under an `adjust < 0` test', ndir, 8, rule='C09-D6')
    ctx.floor('offset shift sites (entry +/- adjust)', shifts, 8, rule='C09-D3')
    ctx.ob('C09-D3', ADJ, 'shift of a stored file offset', 'applied only to offsets addressing bytes after the manifest (the entry is compared with a position before it is shifted)',
           shifts > 0 and (guarded == shifts or ordc >= shifts), detail='%d shift sites, %d guarded by a comparison of the entry, %d ordered comparisons of offsets; parameters: %s' % (shifts, guarded, ordc, params), site=loc(fn.d['span']))
    # ---- D4 other writers
    for name, pat, what in (('<asset_handlers::tiff_io::TiffIO as asset_io::CAIWriter>::write_cai', r'tiff_io::tiff_clone_with_tags$', 'tiff_clone_with_tags'),
                            ('asset_handlers::tiff_io::tiff_clone_with_tags', r'clone_c2pa_mode$', 'TiffCloner::clone_c2pa_mode'),
                            ('<asset_handlers::tiff_io::TiffIO as asset_io::CAIWriter>::remove_cai_store_from_stream', r'clone_c2pa_mode$|io::copy', 'clone_c2pa_mode | verbatim copy'),
                            ('<asset_handlers::riff_io::RiffIO as asset_io::CAIWriter>::write_cai', r'riff_io::inject_c2pa$', 'inject_c2pa'),
                            ('<asset_handlers::riff_io::RiffIO as asset_io::CAIWriter>::write_cai', r'ChunkContents::write$', 'ChunkContents::write (sizes re-derived)')):
        if not ctx.require(prog.has(name), name):
            continue
        f2 = prog.fn(name)
        ctx.analysed(name, len(list(f2.calls())))
        th = set(bi for bi, t in f2.calls() if re.search(pat, t['fd']))
        okr = C07.ok_returns(f2)
        ctx.ob('C09-D4', name, what, 'called', bool(th), nontrivial=False)
        if th and okr:
            oblig.must_pass_through(ctx, 'C09-D4', f2, lambda bi, b, _o=set(okr): bi in _o, lambda bi, b, _t=th: bi in _t, 'return Ok(())', what)
    # chunks that follow the primary RIFF chunk (OpenDML: further `RIFF` chunks with form type AVIX): the copy loop must treat an id equal to
    # the RIFF id -- the very constant the top-level check compares with -- as a chunk to copy, i.e. the header id is compared with it
    wn = '<asset_handlers::riff_io::RiffIO as asset_io::CAIWriter>::write_cai'
    if prog.has(wn):
        f2 = prog.fn(wn)
        nes = [(bi, T.call_term(f2, bi)) for bi, t in f2.calls() if re.search(r'PartialEq::(ne|eq)$', t['fd'])]
        top = [tt for bi, tt in nes if 'Chunk::id(Chunk::read(' in tt]
        rid = None
        if top:
            m = re.search(r',([^,]+)\)$', top[0])
            rid = m.group(1) if m else None
        hdr = [tt for bi, tt in nes if 'Chunk::id(' not in tt and rid and tt.endswith(',%s)' % rid) and 'ChunkId(' in tt]
        ctx.ob('C09-D4', wn, 'chunks after the primary RIFF chunk', 'a header id equal to the RIFF id (the constant of the top-level check) is recognised and copied', bool(rid) and bool(hdr),
               detail='top-level id constant %s; header comparisons with it: %d' % (rid, len(hdr)))
    # GIF: the global colour table is present iff the flag of the logical screen descriptor is set; every site that consumes the table (skip_preamble
    # decides where the manifest block is inserted, next_block_hint drives the block iterator) must decide it on the flag
    gsites = 0
    for n2 in prog.fns():
        if 'gif_io' not in n2:
            continue
        f2 = prog.fn(n2)
        eff = set(bi for bi, t in f2.calls() if t['fd'].endswith('GlobalColorTable::from_stream'))
        if not eff:
            continue
        gsites += 1
        ctx.analysed(n2, len(list(f2.calls())))
        gflag = oblig.TermGuard(T, r'(^|\.)global_color_table_flag$', 'true', name='global_color_table_flag is set')
        oblig.effect_requires(ctx, 'C09-D7', f2, 'GlobalColorTable::from_stream', lambda bi, b, _e=eff: bi in _e, [gflag])
    ctx.floor('GIF functions that consume the global colour table', gsites, 2, rule='C09-D7')
    # PNG: replacing an existing caBX chunk = copy up to its start, skip to its end, copy the rest.  Every skip to the end of the located chunk is
    # preceded (dominated) by a copy whose length is computed from the chunk's start; dropping that copy loses the chunks in front of it
    pw = '<asset_handlers::png_io::PngIO as asset_io::CAIWriter>::write_cai'
    if ctx.require(prog.has(pw), pw):
        f2 = prog.fn(pw)
        pc = list(f2.calls())
        located = r'Iterator::find\[PartialEq::eq\(\w+\.name,CAI_CHUNK\)\]'
        skips = [bi for bi, t in pc if t['fd'].endswith('Seek::seek') and re.search(located, T.call_term(f2, bi)) and re.search(r'\.Some\.0\.1', T.call_term(f2, bi))]
        heads = [bi for bi, t in pc if t['fd'] == 'std::io::copy' and re.search(located, T.call_term(f2, bi)) and re.search(r'\.Some\.0\.0', T.call_term(f2, bi))]
        ctx.floor('PNG write_cai arms that skip an existing caBX chunk', len(skips), 2, rule='C09-D8')
        for sb in skips:
            ok8 = any(f2.dominates(h, sb) for h in heads)
            ctx.ob('C09-D8', pw, 'skip to the end of the existing caBX chunk', 'preceded by a copy of the bytes up to its start', ok8, site=loc(f2.B[sb]['t'].get('span')), detail='%d copies use the chunk start' % len(heads))
    # inject_c2pa copies every child it does not replace: each recursion result is pushed
    inj = 'asset_handlers::riff_io::inject_c2pa'
    if ctx.require(prog.has(inj), inj):
        f2 = prog.fn(inj)
        rec = [bi for bi, t in f2.calls() if t['fd'].endswith('riff_io::inject_c2pa')]
        pushes = [bi for bi, t in f2.calls() if re.search(r'Vec::<T, A>::push$|Vec::push$', t['fd']) and 'inject_c2pa(' in T.call_term(f2, bi)]
        ctx.ob('C09-D4', inj, 'children of RIFF/LIST/seqt chunks', 'each recursive copy is pushed to the rebuilt contents', len(rec) >= 2 and len(pushes) >= len(rec), detail='%d recursive calls, %d pushes' % (len(rec), len(pushes)))
        rc = [bi for bi, t in f2.calls() if re.search(r'Chunk::read_contents$', t['fd'])]
        ctx.ob('C09-D4', inj, 'leaf chunks', 'copied with read_contents', bool(rc))
