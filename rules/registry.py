"""Which properties are claimed, with the texts that go into MANIFEST.json."""
TRUSTED = ("rustc's MIR construction and type/trait resolution (nightly, -Zmir-opt-level=0, facts taken from mir_built); "
           "the frozen rule tables in rules/*.py; a hand-written table of external-API facts where cited")

CLAIMED = {
 'C04': dict(
   technique='MIR guarded-effect dominance (path-sensitive guard propagation) + constant folding of the tolerance predicate',
   text=('Decides the whole decision function structurally: every path of ValidationResults::validation_state to Valid/Trusted '
         'carries the required guards (D1-D3), the tolerated-code predicate accepts exactly {signingCredential.untrusted} and cawg.x509.* '
         'over every code constant (D4), and the legacy Reader::validation_state arm is checked for trusted-credential evidence (D5).'),
   note='Undecided: nothing essential (function is all shape). Trusted base: ' + TRUSTED,
   design='5/C04'),
 'C01': dict(
   technique='MIR guarded-effect dominance + failing-edge obligations + log code/kind table agreement',
   text=('Decides the verdict plumbing of hard-binding validation on all paths: success codes only on the Ok edge of the matching verifier, '
         'every verifier Err edge reaches a Failure log or Err, leaf verifiers return Ok only after the hash comparison, verify_store passes '
         'verify_hash_binding on the binding claim, box-hash verification exhausts the handler box list, log kinds agree with log_kind(code), the JPEG scan-extent predicate accepts 0x00 and every RSTm (enumerated over the byte domain), a signed exclusion is replaced by the observed store range only under an update manifest. '
         'Does NOT decide which bytes the hashes cover.'),
   note='Undecided: exclusion/offset arithmetic, box maps, BMFF path exclusions (runtime values). Assumption A1: labels returned by get_hash_binding_manifest name claims present in the store. Trusted base: ' + TRUSTED,
   design='5/C01'),
 'C26': dict(
   technique='MIR guarded-effect dominance + truth-condition (DNF) extraction + who-may-call over the resolved call graph + derived-cache coherence',
   text=('Decides that the transport call of RestrictedResolver (sync and async) is dominated by the allow-list test on the forwarded request, the '
         'structure of is_uri_allowed / HostPattern::matches truth conditions (pattern, host, port, scheme tests present on every true path), the '
         'resolver stacking order, that no code outside the http layer constructs a transport, and that settings-derived resolver caches are reset when settings change.'),
   note='Undecided: correctness of the string matching for all URIs. Trusted base: ' + TRUSTED,
   design='5/C26'),
 'C27': dict(
   technique='MIR loop/must-pass-through rules + truth/falsity-condition (DNF) extraction of the address predicates + guarded-effect dominance',
   text=('Decides hop bound (0..=MAX_REDIRECTS, const <= 10, TooManyRedirects on exhaustion), that every re-issued hop passes redirect_target and '
         'build_redirected_request, that Ok(Some(target)) needs allow_redirects and host_is_non_global(target)=false, that the address predicates return false '
         'only after every std predicate named by the property is false, and that Host/Authorization/Cookie/Proxy-Authorization are never forwarded; same obligations for sync and async.'),
   note='The masked comparisons for fc00::/7, fe80::/10 and 100.64.0.0/10 are decided by enumerating the 16-bit / 8-bit domain against the RFC prefixes; undecided: exotic numeric host notations. Trusted base: ' + TRUSTED + '; std::net predicate semantics',
   design='5/C27'),
 'C23': dict(
   technique='result-discipline analysis over the resolved call graph (callback-parametric may-cancel set, forward def-use consumer classification) + path rule on the checkpoint',
   text=('Decides that no call site of a function that may return the cancellation error drops, converts or stores that Result: every site is '
         'classified (?, tail, inspected-with-Err-propagating arm, or converted) and converted sites are reported; Context::check_progress returns only '
         'Ok or Err(OperationCancelled) under the documented guards; literal progress arguments satisfy 1 <= step <= total.'),
   note='For the chunked hashing loop the announced total is checked to be the ceiling of range length / chunk size with the loop\'s own chunk bound; other progress values computed in loops (positive/increasing) are undecided. Closures whose `?` returns into std adaptors are assumed to be propagated by the adaptor. Trusted base: ' + TRUSTED,
   design='5/C23'),
 'C28': dict(
   technique='who-may-call tables over the resolved call graph + MIR guarded-effect dominance on every call into a network sink',
   text=('Enumerates every function that issues an HTTP request outside the http layer (sinks), closes the set of their callers, and proves each call '
         'into a sink is dominated by its enabling guard (remote_manifest_fetch, FetchAllowed built only under ocsp_fetch, Some(time-stamp URL), '
         'decode_identity_assertions, Remote signer setting); non-empty OCSP label lists only under the builder settings; the refusal error carries the URL. '
         'A new sink, a new caller or an ungated path is reported.'),
   note='Undecided: nothing essential. Note: core.decode_identity_assertions defaults to true (default-on gate). Trusted base: ' + TRUSTED,
   design='5/C28'),
 'C24': dict(
   technique='type-resolved global-state inventory + call-graph must-not-reach + field-access rule on the cancellation methods',
   text=('Decides the absence of shared hidden state: every static/thread_local/lazy item of the workspace is classified (new or re-typed items are reported), '
         'writers of the legacy thread-local SETTINGS are unreachable from the non-deprecated API, cancellation touches only self.cancel_flag (AtomicBool by value), '
         'Context is not Clone. Settings-derived cache coherence is decided under C26-D6.'),
   note='Undecided: equality of concurrent and sequential results (interleaving-dependent values). Send/Sync are enforced by rustc on every build of dependants; no separate witness crate is built. Trusted base: ' + TRUSTED,
   design='5/C24'),
 'C38': dict(
   technique='call-graph reachability of nondeterminism sources from read entry points against an exact table + global-state inventory',
   text=('Decides the hidden-input clauses: every clock/RNG/UUID call site in non-test SDK code is in an exact table, and those reachable from the read entry '
         'points are the inherent ones (validation time, certificate/OCSP/credential validity now, serde defaults); no writable global besides the tabled ones; Store caches are per instance.'),
   note='Undecided: equality of reports. HashMap iteration order (RandomState) is not tracked. Trusted base: ' + TRUSTED,
   design='5/C38'),
 'C06': dict(
   technique='R-LOGGED rule (log-before-Err on all paths, closures included) + obligation table on resolved callees + must-pass-through',
   text=('Decides that, because verify_signature discards the profile result, every Err exit of the profile checkers is preceded by a signingCredential.* Failure log; '
         'that each anchored profile rule (CA as end entity, validity, allowed EKU, ...) reaches such a log and an Err on its failing edge; that no Failure log lies on a path to Ok(()); '
         'that the profile check is on every path to Ok(CertificateInfo).'),
   note='Undecided: that each predicate (key size, OIDs, validity arithmetic) is right. Trusted base: ' + TRUSTED,
   design='5/C06'),
 'C31': dict(
   technique='MIR guarded-effect dominance over every raw-pointer dereference/reclaim site of c2pa_c_ffi (E4) + error-return/set_last path rule',
   text=('Decides validate-before-deref for every pointer parameter of every C entry point and helper (null check; validate_pointer/untrack_pointer with the cast-target type for tracked '
         'handle types), reclaim discipline (Box/Arc/CString/Vec from_raw only under untrack or in registry cleanup closures), tracked returns, set_last before every error-indicator return, '
         'and the registry free/untrack/validate structure.'),
   note='Undecided: address reuse after free (runtime), behaviour of C callers, callbacks invoked by the library with its own context. Trusted base: ' + TRUSTED,
   design='5/C31'),
 'C02': dict(
   technique='MIR guarded-effect dominance + failing-edge obligations on comparison/verification call sites + def-use of the verified bytes',
   text=('Decides the verdict plumbing for manifest-store tampering: hashed-URI match only on the true outcome of the hash comparison (false/missing/undeclared reach Failure logs, undeclared also Err); '
         'claimSignature.validated/insideValidity only for Ok(vi) with vi.validated, both other arms log claimSignature.mismatch; CertificateInfo only after validator.validate = Ok on sign1.signature/tbs; '
         'ingredient.manifest.validated only after the manifest box hash matched, mismatch is a Failure, every found ingredient goes through verify_claim; COSE verification is fed the claim original bytes.'),
   note='Undecided: that the box hashes / COSE signature cover every byte. Trusted base: ' + TRUSTED,
   design='5/C02'),
 'C05': dict(
   technique='full path enumeration of return classes with guard literals + must-pass-through between builder new()/build() + who-may-call table',
   text=('Decides the trust decision structure: EndEntity only via the allow-list lookup on the certificate hash, NoCheck only in passthrough, System only after verify_cert on the store fed from trust_anchor_ders(), '
         'User only when trust_anchors_only() is false and verify_cert succeeded on the store fed from user_trust_anchor_ders(); both stores receive X509_STRICT and the shared verify parameters; NO_CHECK_TIME only without signing time; '
         'trusted/untrusted logs only on the matching edge and only for Verifier::VerifyTrustPolicy; pass-through policies only in tabled functions; settings wiring of user/system anchors.'),
   note='Undecided: chain building and EKU evaluation inside OpenSSL; the rust_native backend is not compiled in this build configuration. Trusted base: ' + TRUSTED,
   design='5/C05'),
 'C10': dict(
   technique='SCC enumeration over the resolved call graph with per-recursion guard dominance + type-resolved bounded-read rule + reachable-panic inventory',
   text=('Decides four structural clauses: every input-driven recursion is tabled, passes depth+1 and is dominated by a comparison with a finite constant (or a visited-set test); '
         'decompression and response-body reads are bounded by type (BoundedVecWriter / io::Take); explicit panic-family calls reachable from read/ingest entry points are an exact table.'),
   note='Undecided: index/slice bounds and arithmetic-overflow panics, timing, total memory; recursion inside dependencies (serde/CBOR). Builder::old_from_archive unbounded ZipFile reads are tabled as an unreplayed candidate. Trusted base: ' + TRUSTED,
   design='5/C10'),
 'C19': dict(
   technique='recursion-guard dominance on the three ingredient traversals + failing-edge obligations for cyclic/over-deep/dangling graphs + result-discipline on callers',
   text=('Decides termination structure (depth counter incremented at each recursive call and compared with MAX_INGREDIENT_DEPTH=200; path/visited membership tests dominate the recursive calls) '
         'and rejection plumbing (over-deep returns Err; cycle logs a Failure and returns Err(CyclicIngredients) which callers propagate; dangling references log ingredient.manifest.missing as Failure; '
         'cyclic update chains yield None).'),
   note='Undecided: polynomial running time (shared sub-graph cost). Trusted base: ' + TRUSTED,
   design='5/C19'),
 'C20': dict(
   technique='failing-edge obligations on the disallowed-redaction tests + truth-condition (DNF) of the redaction-match closure + full path enumeration of redact_assertion + result-discipline on its callers',
   text=('Decides that self / action / hash-binding redactions reach their Failure logs, that the hash check of an assertion is skipped only for a redaction entry naming this manifest, label and instance '
         '(otherwise a missing assertion is a Failure), that redact_assertion returns Ok only after the prefix and manifest tests and a removal, and that a failed redaction is never recorded.'),
   note='Undecided: that output bytes no longer contain the data; exact redaction lists. Trusted base: ' + TRUSTED,
   design='5/C20'),
 'C21': dict(
   technique='guarded-effect dominance + failing-edge obligations under the update_manifest() guard; path enumeration over the parent_count switch',
   text=('Decides that, for update manifests, a disallowed action, zero parents, more than one parent (verify_internal) and the presence of hash assertions (verify_hash_binding) each reach a manifest.update.* Failure log, '
         'that those logs occur only under update_manifest() = true, and that the write side has a sibling rule check with Err exits.'),
   note='Undecided: that bound content is unchanged (follows C01 undecided part). Trusted base: ' + TRUSTED,
   design='5/C21'),
 'C36': dict(
   technique='loop-iteration reachability (rejection log never followed by the Ok return) + guarded-effect dominance + must-pass-through + decision-table agreement',
   text=('Decides that verify_time_stamp returns a token only in an iteration with no timeStamp.* rejection logged, that timeStamp.validated and the Ok return need the message-imprint comparison on the data argument to be true, '
         'that the CMS signature validation lies on every path to Ok, that timeStamp.trusted needs the trust check when verify_trust is set, that validate_cose_tst_info feeds the bytes of the same sign1, '
         'and that the deciding conditions of every status log (incl. the certificate-validity branch used for expired certificates) agree with the reviewed decision table.'),
   note='Undecided: CMS/ASN.1 correctness. The decision table is a reference-through-time rule: an intended change of conditions needs the table regenerated (VERIF_REGEN_TABLES=1) after review. Trusted base: ' + TRUSTED,
   design='5/C36'),
 'C37': dict(
   technique='failing-edge obligation on the revoked-status test + result-discipline along the propagation chain + guarded-effect dominance + DNF of the certId matcher + decision-table agreement',
   text=('Decides that a revoked status reaches only an Err that is propagated to the reader entry point, that revoked/notRevoked status logs are dominated by cert_id_matches_signer = true on the response under evaluation, '
         'that the matcher requires serial AND issuer-name hash AND issuer-key hash, that the chain comes from the same sign1, and that the deciding conditions of the OCSP status logs agree with the reviewed table.'),
   note='Undecided: OCSP signature/validity evaluation. Decision table is reference-through-time (see C36). Trusted base: ' + TRUSTED,
   design='5/C37'),
 'C40': dict(
   technique='sibling agreement over MIR: per sync/async pair, multiset comparison of normalised resolved callees with shallow argument shapes',
   text=('Decides that the two flavours of every async_generic pair perform the same operations on the same data: a call present in only one flavour, or the same call fed from a different variable / settings field, '
         'is reported unless tabled with a reason (and the reason is re-checked by a field-use side condition).'),
   note='Undecided: equality of outcomes. Argument shapes are shallow (variable, field path or producing callee); differences nested deeper inside an argument expression are not seen. Trusted base: ' + TRUSTED,
   design='5/C40'),
 'C29': dict(
   technique='def-use sanitiser dominance for filesystem sinks + full path enumeration of resolve_within_root with guard literals',
   text=('Decides that every filesystem sink in the resource/archive code whose path joins a variable component takes it from resolve_within_root / sanitize_archive_path / uri_to_path, and that resolve_within_root returns Ok only after '
         'the non-empty, no-backslash, not-absolute, lexical-containment tests and - whenever the target canonicalises - the component-wise canonical containment test; exists() probes only resolved paths.'),
   note='Undecided: filesystem state at the time of the call; symlink containment of writes (ResourceStore::add, Reader::to_folder) is lexical only. Trusted base: ' + TRUSTED,
   design='5/C29'),
 'C32': dict(
   technique='guarded-destructive-sink rule (path-sensitive dominance over exists()/--force facts) on c2patool main + must-pass-through for the re-read',
   text=('Decides the overwrite clause: every create/replace/delete on a path derived from --output is reachable only with that path absent or --force set (or inside a directory created by this run), removals only with --force; and every successful signing path re-reads the output.'),
   note='Undecided: validity of the signed outputs (run-time). Trusted base: ' + TRUSTED,
   design='5/C32'),
 'C33': dict(
   technique='log-site inventory folded through the manifest tolerance predicate + R-LOGGED rule under the discarding caller + guarded-effect dominance + settings field-use inventory',
   text=('Decides that CAWG failure codes logged in sdk/src/identity are either tolerated by the manifest state or reported (code-scope clause), that every Err exit of the identity validation chain logs a status because CawgValidator discards the error, '
         'that cawg success codes need the signature verification Ok edge, and that CAWG trust material is read from settings.cawg_trust.* only.'),
   note='Undecided: the cryptographic binding itself. Trusted base: ' + TRUSTED,
   design='5/C33'),
 'C25': dict(
   technique='guarded-effect dominance of commit sites by validate() = Ok + no-Err-after-commit reachability + callee identity of the update primitives + ADT field coverage of Settings::validate',
   text=('Decides the atomicity clause: every commit of new settings (*self = .., SETTINGS.set(..), self.settings = ..) is dominated by the Ok edge of validation of the candidate value and nothing can fail after it; '
         'builders return Ok only after validate; the overlay builder merges (merge_json) and the path setter replaces (set_at_path); the top-level validate covers every overriding sub-struct.'),
   note='Undecided: recursive-merge semantics, get/set inverse, JSON/TOML equivalence (value-level). Trusted base: ' + TRUSTED,
   design='5/C25'),
 'C14': dict(
   technique='full path enumeration of the padders with equality-guard literals + must-pass-through on the re-entry and on every signing flavour',
   text=('Decides that pad_cose_sig and DataHash::pad_to_size return Ok only on the true outcome of the size equality test (or for no target / via their own recursion), that overshoot exits return Err, '
         'that the second-pad re-entry resets the first pad and happens once, that update_data_hash pads to the original assertion length, and that every COSE signing flavour returns through pad_cose_sig(box_size).'),
   note='Undecided: that a suitable pad exists for every ample reserve (value-level; the replayed window C+1..C+262 for COSE padding is a known limitation outside the structural clauses). Trusted base: ' + TRUSTED,
   design='5/C14'),
 'C15': dict(
   technique='ordering typestate over the length comparison facts on every path to the final composition + def-use of the recorded placeholder length',
   text=('Decides that Builder::sign_embeddable reaches the final composition, on every data-hash placeholder path, with the signed JUMBF length equal to the recorded placeholder length (shorter is padded, longer returns Err), '
         'that Builder::placeholder records the length of the very buffer it composes unconditionally on every path, and that the data-hash flavour re-pads through Claim::update_data_hash with its size error propagated.'),
   note='Undecided: that the patched asset reads back Valid. BMFF (Merkle) placeholders may grow by design. Trusted base: ' + TRUSTED,
   design='5/C15'),
 'C35': dict(
   technique='type-resolved inventory of short-read-prone calls with generic-instantiation resolution + result-discipline inventory of discarded I/O results',
   text=('Decides that every raw Read::read/Write::write is a forwarding impl, a count-driven loop, or only ever instantiated on in-memory cursors, and that every discarded I/O Result in the I/O layers is an Option-lookup `.ok()?`, a tested is_ok/is_err whose error outcome returns, or a tabled exception.'),
   note='Undecided: equality of results under arbitrary chunking. Trusted base: ' + TRUSTED,
   design='5/C35'),
 'C11': dict(
   technique='def-use routing rule on the reader entry points + full path enumeration of format_from_stream + compile-time table agreement between sniffer constants and handler tables',
   text=('Decides that the stream/file reader entry points hand the store loader the result of format_from_stream(hint, stream), that format_from_stream returns the hint only when detection failed or containers agree, '
         'that every container id the sniffer can return is the first entry of a handler SUPPORTED_TYPES table (static or promoted initialiser values), and that the published signatures of 14 container kinds (independent table) are among the byte strings the sniffer compares the header with.'),
   note='Undecided: equality of whole reports; entry points that take a hint without sniffing (manifest-data, fragment, ingredient variants) are outside the clause and listed in the evidence. Trusted base: ' + TRUSTED,
   design='5/C11'),
 'C13': dict(
   technique='MIR dominance/origin rules on the range-hashing function (end-of-data guard coverage, checked arithmetic on caller values, worker hand-off ownership, source of hashed bytes)',
   text=('Decides that the data-length comparisons exist, reject on their true edge and dominate every use of a supplied range; that the bound compared with the data length is derived from every supplied range; '
         'that caller-supplied start/length values are combined only through checked arithmetic whose None result returns Err; that the worker closure owns its captures, updates then sends the hasher, that the hasher '
         'reaching finalize comes only from the constructor or rx.recv() and a lost hasher returns Err; and that every Hasher::update argument is a buffer that passed read_exact on the input stream (or the BMFF offset marker under its test).'),
   note='Undecided: digest equality with a reference, the overlap/sort algebra, chunk-size independence of the value. Trusted base: ' + TRUSTED,
   design='5/C13'),
 'C30': dict(
   technique='writer/reader agreement rules on MIR (constructor class of the XMP attribute writer vs unescaping class of the reader; key constants; capability tables of the handlers; argument origins)',
   text=('Decides that the XMP attribute writer and reader agree on escaping (escaping constructor <-> unescape), that add_provenance and extract_provenance use the same key and the namespace is declared, that every RemoteRefEmbed '
         'implementation reaches add_provenance with the caller\'s reference and its type also implements read_xmp and advertises the writer, that the XMP given to add_provenance is the asset\'s existing XMP (MIN_XMP only as the absent default), '
         'and that add_xmp_key copies the attributes/events it does not rewrite.'),
   note='Undecided: URL normalisation, container-level placement of the XMP packet per format, tag-form (element) provenance values written by other tools. Trusted base: ' + TRUSTED + '; quick_xml: From<(&str,&str)> for Attribute escapes, From<(&[u8],&[u8])> does not',
   design='5/C30'),
 'C03': dict(
   technique='def-use wiring rules on MIR over the two conversions (field-access inventory from ADT facts, sink/source identity, loop must-pass-through)',
   text=('Decides that every supplied ManifestDefinition/AssertionDefinition field the statement names is read while building the claim and reaches the matching Claim mutator (title, format, instance id, claim generator info, '
         'ingredients with redactions, every assertion element through an add_assertion call, un-applied redactions rejected), and that Manifest::from_store (sync and async) rebuilds title, format, claim generator, '
         'claim generator info, assertions, ingredients and redactions from the Claim accessors rather than from defaults.'),
   note='Undecided: equality of reported values for all definitions, sizes, algorithms and settings; that signing succeeds. Trusted base: ' + TRUSTED,
   design='5/C03'),
 'C07': dict(
   technique='sibling-implementation agreement rules on MIR (carrier constants shared by reader/writer/remover, locate-before-write must-pass-through, context-restricted reachability for removal by empty write, equal recogniser gates)',
   text=('Decides per handler that reader, writer and remover reference the same carrier constants, that every Ok return of write_cai/remove passes the locate-or-strip routine for an existing store, that removers which delegate to '
         'write_cai with an empty store reach the strip site and not the insert site under that argument, that the ID3 writer drops old GEOB frames with the reader\'s acceptance predicate, and that the JPEG recognisers of C2PA segments gate on the same minimum length.'),
   note='Undecided: byte equality of read-after-write for all lengths and operation sequences; validity of the asset after removal. Trusted base: ' + TRUSTED + '; frozen per-handler carrier/locate tables in rules/C07.py',
   design='5/C07'),
 'C08': dict(
   technique='MIR dominance rules on every in-place write (length-equality guard, seek-before-write) + equality guard on the regenerated JUMBF + carrier-constant agreement of the region reporters',
   text=('Decides that start_save_stream and save_to_bmff_fragmented return the regenerated JUMBF only when its length equals the placeholder (else Err(JumbfCreationError)), that every write on the asset reachable from the 7 '
         'AssetPatch::patch_cai_store implementations is dominated by the equal edge of a comparison between the written buffer\'s length and the located manifest length and preceded by a seek, and that each handler\'s '
         'get_object_locations_from_stream references the handler\'s carrier constants (JPEG gate agreement is shared with C07-D5).'),
   note='Undecided: arithmetic of the reported offsets, overlap of regions, byte-level diffs for all sizes. BMFF reports no object locations (tabled). Trusted base: ' + TRUSTED,
   design='5/C08'),
 'C09': dict(
   technique='MIR must-call / guard rules on the BMFF offset fix-up and the copying routines of the TIFF, RIFF and ID3 writers',
   text=('Decides that every BMFF rewrite that changes the C2PA box size returns Ok only with a zero shift or after adjust_known_offsets on the output with a shift derived from the box sizes, that the fix-up looks up every '
         'offset-bearing box kind of the frozen list and rewrites iloc offsets only under construction_method == 0, whether a shift is ever conditioned on the position of the addressed bytes (it is not: known finding), '
         'and that TIFF/RIFF writers go through their cloning routines with every child copied.'),
   note='Undecided: that bytes, order and offsets are in fact preserved for all layouts. Trusted base: ' + TRUSTED,
   design='5/C09'),
}

NA_REASONS = {
 'C12': 'Ordered/disjoint/covering box lists are relations between runtime offsets computed from input bytes; no clause is visible in code shape (the exhaustion consequence is checked under C01).',
 'C16': 'Merkle proof acceptance is an equation over hashes and index arithmetic for every leaf count; nothing structural beyond the comparison guard already under C01.',
 'C17': 'Chunk-split independence is byte accounting across calls (value-level); no sound static argument in reach.',
 'C18': 'Re-serialisation fixed point is byte equality of encoder/decoder pairs; no discriminating structural clause.',
 'C22': 'Archive save/restore equality of reported content is value-level (path confinement of archive import is under C29).',
 'C34': 'Label/URI format-parse inverse over strings is value-level.',
 'C39': 'Faithful recording of ingredient manifests/validation results is equality of data; the structural hazard (cancellation converted into an ingredient failure) is under C23.',
}
