"""Which properties are claimed, with the texts that go into MANIFEST.json."""
TRUSTED = ("rustc's MIR construction and type/trait resolution (nightly, -Zmir-opt-level=0, facts taken from mir_built); "
           "the frozen rule tables in rules/*.py; a hand-written table of external-API facts where cited")

CLAIMED = {
 'C04': dict(
   technique='MIR guarded-effect dominance (path-sensitive guard propagation) + constant folding of the tolerance predicate',
   text=('Decides the whole decision function structurally: every path of ValidationResults::validation_state to Valid/Trusted '
         'carries the required guards (D1-D3), the tolerated-code predicate accepts exactly {signingCredential.untrusted} and cawg.x509.* '
         'over every code constant (D4), and the legacy Reader::validation_state arm is checked for trusted-credential evidence (D5).'),
   note='Undecided: nothing essential (function is all shape). Trusted base: ' + TRUSTED,
   design='5/C04'),
}

NA_REASONS = {
 'C12': 'Ordered/disjoint/covering box lists are relations between runtime offsets computed from input bytes; no clause is visible in code shape (the exhaustion consequence is checked under C01).',
 'C16': 'Merkle proof acceptance is an equation over hashes and index arithmetic for every leaf count; nothing structural beyond the comparison guard already under C01.',
 'C17': 'Chunk-split independence is byte accounting across calls (value-level); no sound static argument in reach.',
 'C18': 'Re-serialisation fixed point is byte equality of encoder/decoder pairs; no discriminating structural clause.',
 'C22': 'Archive save/restore equality of reported content is value-level (path confinement of archive import is under C29).',
 'C34': 'Label/URI format-parse inverse over strings is value-level.',
 'C39': 'Faithful recording of ingredient manifests/validation results is equality of data; the structural hazard (cancellation converted into an ingredient failure) is under C23.',
}
