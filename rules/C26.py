"""C26 The network host allow-list is enforced on every request."""
import re
from lib import CallGuard, loc, classify_ret, Engine, strip_ty
from terms import Terms
import oblig

EXPLANATION = ("All-paths MIR rules: the inner transport call of RestrictedResolver (sync body and async coroutine) is reachable only "
               "on the `true` outcome of is_uri_allowed and the false edge returns UriDisallowed; truth conditions (DNF over all "
               "true-returning paths) of is_uri_allowed and HostPattern::matches contain the pattern/host/port/scheme tests; the "
               "default resolver stack is RedirectResolver<RestrictedResolver<client>> when an allow-list is configured; raw transports "
               "are constructed only in sdk/src/http and Context::build_default_*; settings-derived OnceLock caches of Context are "
               "reset by every method that can change the settings. Decides enforcement plumbing, not the string matching itself.")
RULE = "obligation = (function, effect/return, guard) over resolved callees; who-may-call rows = (constructor, calling function)"

R = 'http::restricted::'
SYNC = '<http::restricted::RestrictedResolver<T> as http::SyncHttpResolver>::http_resolve'
ASYNC = '<http::restricted::RestrictedResolver<T> as http::AsyncHttpResolver>::http_resolve_async::{closure#0}'

TRANSPORT_CTORS = re.compile(r'^(http::sync_resolver::|http::async_resolver::|http::ureq|http::reqwest|ureq::|reqwest::)|SyncGenericResolver::(new|with_redirects)$|AsyncGenericResolver::(new|with_redirects)$|<http::(Sync|Async)GenericResolver as std::default::Default>::default$')
# constructors of transports may be called from these (function-name prefixes), one line of reason each
TRANSPORT_ALLOWED = {
    'http::': 'the transport layer itself',
    'context::Context::build_default_sync_resolver': 'assembles the stack RedirectResolver<RestrictedResolver<client>> (C26-D4)',
    'context::Context::build_default_async_resolver': 'assembles the stack (C26-D4)',
}


def run(ctx):
    prog = ctx.prog(('c2pa',))
    T = Terms(prog)
    # ---- D1
    for name, inner in ((SYNC, r'SyncHttpResolver::http_resolve$'), (ASYNC, r'AsyncHttpResolver::http_resolve_async$')):
        if not ctx.require(prog.has(name), name):
            continue
        fn = prog.fn(name)
        ctx.analysed(name, len(list(fn.calls())))
        g = CallGuard(r'RestrictedResolver::<T>::is_uri_allowed$', 'true', name='self.is_uri_allowed(request.uri()) = true')

        def is_inner(bi, b, _p=inner):
            t = b['t']
            return t['k'] == 'call' and re.search(_p, t['fd']) and t['f'].startswith('<T as')
        n = oblig.effect_requires(ctx, 'C26-D1', fn, 'inner transport call', is_inner, [g])
        # the guard's argument is the request's own URI
        reqs = set()
        for bi, t in fn.calls():
            if is_inner(bi, fn.B[bi]):
                reqs.add(T.op_term(fn, t['args'][1]))
        for bi, t in fn.calls():
            if g.matches_call(fn, bi, t):
                term = T.call_term(fn, bi)
                ctx.ob('C26-D1', name, 'is_uri_allowed argument', 'uri of the request being forwarded', any(('Request::uri(%s)' % r) in term for r in reqs),
                       detail='guard call is %s ; forwarded request is %s' % (term, sorted(reqs)), site=loc(t['span']))
        gf = CallGuard(r'RestrictedResolver::<T>::is_uri_allowed$', 'false', name='is_uri_allowed = false')
        oblig.failing_edge_obligation(ctx, 'C26-D1', fn, gf, lambda bi, b: False, 'Err(UriDisallowed)')
        # and that Err is the UriDisallowed variant
        uv = [1 for b in fn.B for dst, rv in b['s'] if rv['k'] == 'agg' and rv.get('variant') == 'UriDisallowed']
        ctx.ob('C26-D1', name, 'refusal error', 'HttpResolverError::UriDisallowed constructed', bool(uv))
    # ---- D2
    fa = R + 'is_uri_allowed'
    if ctx.require(prog.has(fa), fa):
        s, dnf = T.truth_dnf(fa)
        ok = dnf is not None and len(dnf) > 0 and all(any(re.match(r'^HostPattern::matches\(.*,uri\)$', l) or re.match(r'^Iterator::any\[[^\]]*HostPattern::matches\([^\]]*uri\)[^\]]*\]\(', l) for l in c) for c in dnf)
        ctx.analysed(fa)
        ctx.ob('C26-D2', fa, 'return true', 'some pattern.matches(uri) = true', ok, detail='truth condition: ' + s)
    fm = R + 'RestrictedResolver::<T>::is_uri_allowed'
    if ctx.require(prog.has(fm), fm):
        s, dnf = T.truth_dnf(fm)
        ctx.analysed(fm)
        ok = bool(re.fullmatch(r'Option::unwrap_or\(Option::map\[is_uri_allowed\(hosts,\w+(\.\d+)?\)\]\(self\.allowed_hosts\),1\)', s))
        ctx.ob('C26-D2', fm, 'return value', 'allowed_hosts.map(|h| is_uri_allowed(h, uri)).unwrap_or(true)', ok, detail='value: ' + s)
    # ---- D3
    hm = R + 'HostPattern::matches'
    if ctx.require(prog.has(hm), hm):
        s, dnf = T.truth_dnf(hm)
        from terms import expand_dnf
        dnf = expand_dnf(T, dnf)      # a sub-test extracted into a private predicate is read through
        ctx.analysed(hm)
        ok_shape = dnf is not None and len(dnf) > 0
        ctx.ob('C26-D3', hm, 'truth condition', 'computable', ok_shape, detail=s[:300])
        if ok_shape:
            host_disj = [c for c in dnf if 'discr(self.host)=1' in c or any(l.startswith('ok(self.host') for l in c)]
            ctx.floor('true-returning host-pattern path classes of HostPattern::matches', len(host_disj), 2, rule='C26-D3')
            for i, c in enumerate(dnf):
                hostpat = ('discr(self.host)=1' in c) or any(l.startswith('ok(self.host') for l in c)
                if hostpat:
                    port = any(re.match(r'^PartialEq::eq\(self\.port,.*Uri::port\(uri\)\)*$', l) for l in c)
                    host = any(re.match(r'^eq_ignore_ascii_case\(self\.host\.Some\.0,Uri::host\(uri\)', l) for l in c) or \
                        (any(l.startswith('ends_with(') and 'Uri::host(uri)' in l and 'strip_prefix(self.host' in l for l in c) and
                         any(re.match(r'^eq\(.*Uri::host\(uri\).*,46\)$', l) for l in c) and any(l.startswith('!le(') for l in c))
                    ctx.ob('C26-D3', hm, 'return true (host pattern, class %d)' % i, 'port equality with uri.port()', port, detail=' & '.join(sorted(c))[:400])
                    ctx.ob('C26-D3', hm, 'return true (host pattern, class %d)' % i, 'host equality / wildcard-suffix test', host, detail=' & '.join(sorted(c))[:400])
                schemepat = 'discr(self.scheme)=1' in c or any(l.startswith('ok(self.scheme') for l in c)
                if schemepat or not hostpat:
                    sch = any(re.match(r'^PartialEq::eq\(Scheme::as_str\(Uri::scheme\(uri\)\.Some\.0\),self\.scheme\.Some\.0\)$', l) for l in c)
                    ctx.ob('C26-D3', hm, 'return true (scheme pattern, class %d)' % i, 'scheme equality', sch, detail=' & '.join(sorted(c))[:400])
    # ---- D4 stacking
    for bn, client in (('context::Context::build_default_sync_resolver', 'SyncGenericResolver'), ('context::Context::build_default_async_resolver', 'AsyncGenericResolver')):
        if not ctx.require(prog.has(bn), bn):
            continue
        fn = prog.fn(bn)
        ctx.analysed(bn, len(list(fn.calls())))
        news = [(bi, t) for bi, t in fn.calls() if t['fd'] == R + 'RedirectResolver::<T>::new']
        ctx.floor('RedirectResolver::new call sites in ' + bn, len(news), 2, rule='C26-D4')
        # on the allowed_network_hosts = Some edge the inner type is RestrictedResolver<client> and set_allowed_hosts(Some) precedes
        eng = Engine(fn)
        def mon(bi, b, env, facts, ms):
            return ms, ([('new', bi)] if any(bi == x for x, _ in news) else [])
        hits = eng.explore(mon)
        ctx.states += eng.states
        for (lab, nbi), bi, facts, env, key in hits:
            t = fn.B[nbi]['t']
            some = None
            for a, v in facts.items():
                tt = T.atom_term(fn, a)
                if 'allowed_network_hosts' in tt and a[0] in ('ok', 'discr'):
                    some = (v == 1)
            inner_ty = t['f']
            restricted = 'RestrictedResolver<' in inner_ty
            if some is None:
                ctx.ob('C26-D4', bn, 'RedirectResolver::new', 'decided by allowed_network_hosts', False, detail='cannot relate construction at %s to the allowed_network_hosts test' % loc(t['span']))
                continue
            if some:
                path = eng.path_of(key)
                sah = any(fn.B[b]['t']['k'] == 'call' and fn.B[b]['t']['fd'] == R + 'RestrictedResolver::<T>::set_allowed_hosts' for b in path)
                ctx.ob('C26-D4', bn, 'resolver stack (allow-list configured)', 'RedirectResolver<RestrictedResolver<%s>> with set_allowed_hosts(Some(list))' % client,
                       restricted and sah and client in inner_ty, detail='constructed ' + inner_ty, site=loc(t['span']))
            else:
                ctx.ob('C26-D4', bn, 'resolver stack (no allow-list)', 'RedirectResolver<%s>' % client, client in inner_ty, detail='constructed ' + inner_ty, site=loc(t['span']), nontrivial=False)
        # allow_redirects argument comes from settings.core.allow_redirects
        for bi, t in news:
            term = T.op_term(fn, t['args'][1])
            ctx.ob('C26-D4', bn, 'RedirectResolver::new(_, allow)', 'allow = settings.core.allow_redirects', 'allow_redirects' in term, detail='argument is ' + term, site=loc(t['span']))
    # no other non-test code constructs RedirectResolver / RestrictedResolver with a transport
    def in_http(fn):
        return fn.d['span']['file'].startswith('sdk/src/http/')
    for name in prog.fns():
        fn = prog.fn(name)
        if in_http(fn) or name.startswith('context::Context::build_default_'):
            continue
        for bi, t in fn.calls():
            if t['fd'] == R + 'RedirectResolver::<T>::new':
                ctx.ob('C26-D4', name, 'RedirectResolver::new', 'only in Context::build_default_*', False, detail='constructed at ' + loc(t['span']), site=loc(t['span']))
    # ---- D5 who-may-call transports
    nctor = 0
    for name in prog.fns():
        fn = prog.fn(name)
        for bi, t in fn.calls():
            if not TRANSPORT_CTORS.search(t['fd']) and not (t.get('r') and TRANSPORT_CTORS.search(t['r'])):
                continue
            callee = t.get('r') or t['fd']
            if in_http(fn):
                continue
            nctor += 1
            allowed = [p for p in TRANSPORT_ALLOWED if name.startswith(p) and p != 'http::']
            ctx.ob('C26-D5', name, 'constructs transport ' + callee.split('::')[-2] + '::' + callee.split('::')[-1], 'inside sdk/src/http or Context::build_default_*', bool(allowed),
                   detail=('allowed: ' + TRANSPORT_ALLOWED[allowed[0]]) if allowed else 'transport constructed outside the http layer at %s: requests made with it bypass Context::resolver() (allow-list, redirect checks)' % loc(t['span']),
                   site=loc(t['span']))
    ctx.floor('transport constructor call sites outside http::', nctor, 2, rule='C26-D5')
    # every http_resolve(_async) call outside http:: goes through a dyn resolver obtained from Context::resolver*()
    nsink = 0
    for name in prog.fns():
        fn = prog.fn(name)
        if in_http(fn):
            continue
        for bi, t in fn.calls():
            if re.search(r'http::(Sync|Async)HttpResolver::http_resolve(_async)?$', t['fd']):
                nsink += 1
                recv = T.op_term(fn, t['args'][0])
                ok = 'dyn http::' in t['f'] or t['f'].startswith('<T as') or 'resolver' in recv.lower()
                origin_ok = ('Context::resolver' in recv) or ('resolver' in recv.lower())
                ctx.ob('C26-D5', name, 'HTTP request', 'receiver is the context resolver (dyn / injected)', ok and origin_ok or name.startswith('settings::signer::'),
                       detail='receiver: %s ; callee %s' % (recv[:120], t['f'][:100]), site=loc(t['span']))
    ctx.floor('HTTP request call sites outside http::', nsink, 8, rule='C26-D5')
    # ---- D5b: a fresh Context::new() must not be what carries a request to the network inside an operation that was
    # given a configured context: its default resolver knows nothing of the caller's allow-list
    sinks = set()
    for name in prog.fns():
        fn = prog.fn(name)
        if in_http(fn):
            continue
        for bi, t in fn.calls():
            if re.search(r'http::(Sync|Async)HttpResolver::http_resolve(_async)?$', t['fd']):
                sinks.add(name)
    reach_sink = prog.callers_closure(sinks)
    nfresh = 0
    for name in prog.fns():
        fn = prog.fn(name)
        if fn.d['span']['file'] == 'sdk/src/context.rs':
            continue
        for bi, t in fn.calls():
            c = t.get('r') or t['fd']
            if not re.search(r'^context::Context::new$|^<context::Context as std::default::Default>::default$', c):
                continue
            nfresh += 1
            # does the fresh context flow into a call that reaches a sink?
            dl = t['dest']['l']
            flows = []
            for b2, t2 in fn.calls():
                if b2 == bi:
                    continue
                if any(('l' in a) and any(o == ('call', bi) for o in fn.origins(a)) for a in t2['args']):
                    if any(x in reach_sink for x in prog.callee_targets(t2)):
                        flows.append(t2['fd'])
            root = bool(fn.d.get('deprecated')) or ' as std::default::Default>::default' in name
            base_name = re.sub(r'::\{closure#\d+\}', '', name)
            if base_name in prog.bodies and prog.bodies[base_name].get('deprecated'):
                root = True
            if not flows:
                ctx.ob('C26-D5', name, 'fresh Context::new()', 'does not carry a network request', True, site=loc(t['span']), nontrivial=False)
                continue
            ctx.ob('C26-D5', name, 'fresh Context::new() passed to ' + flows[0].split('::')[-1], 'only in deprecated context-less API roots', root,
                   detail=('deprecated context-less public constructor: the fresh context is the operation\'s root context' if root else
                           'a default Context is created inside an operation and used for a network request at %s: its resolver ignores the allow-list/redirect settings of the context the operation was started with' % loc(t['span'])),
                   site=loc(t['span']))
    ctx.floor('fresh Context::new() sites outside context.rs', nfresh, 10, rule='C26-D5')
    # ---- D6 derived-cache coherence
    cadt = prog.adts.get('context::Context')
    if ctx.require(cadt is not None, 'context::Context (adt)'):
        fields = [f[0] for f in cadt['variants'][0]['fields']]
        # derived fields: those whose state enum has a OnceLock variant and whose get_or_init closure reads self.settings
        derived = set()
        for name in prog.fns():
            if not name.startswith('context::Context::') or '{closure' in name:
                continue
            fn = prog.fn(name)
            for bi, t in fn.calls():
                if 'OnceLock' in t['fd'] and t['fd'].endswith('get_or_init'):
                    clos = [fn.locals[a['l']].get('closure') for a in t['args'] if 'l' in a and fn.locals[a['l']].get('closure')]
                    reads = False
                    for c in clos:
                        reach, _ = prog.reach_from([c])
                        for rname in reach:
                            rf = prog.fn(rname)
                            for b in rf.B:
                                for dst, rv in b['s']:
                                    for o in ([rv.get('o')] if rv.get('o') else []) + ([{'l': rv['pl']['l'], 'p': rv['pl']['p']}] if 'pl' in rv else []):
                                        if 'l' in o and o.get('p'):
                                            nm = T.field_names(rf, o['l'], o['p'])
                                            if 'settings' in nm and 'Context' in strip_ty(rf.local_ty(o['l'])):
                                                reads = True
                    recv = T.op_term(fn, t['args'][0])
                    m = re.search(r'self\.(\w+)', recv)
                    if reads and m:
                        derived.add(m.group(1))
        ftypes = {f[0]: f[1] for f in cadt['variants'][0]['fields']}
        other = sorted(d for d in derived if 'Resolver' not in ftypes.get(d, ''))
        if other:
            ctx.note('other settings-derived caches (not network related, not part of this property): %s' % other)
        derived = set(d for d in derived if 'Resolver' in ftypes.get(d, ''))
        ctx.floor('settings-derived resolver caches of Context', len(derived), 2, rule='C26-D6')
        ctx.note('settings-derived caches: %s' % sorted(derived))
        for mut in ('context::Context::set_settings', 'context::Context::with_settings', 'context::Context::settings_mut'):
            if not ctx.require(prog.has(mut), mut):
                continue
            fn = prog.fn(mut)
            ctx.analysed(mut, len(list(fn.calls())))
            written = set()
            for b in fn.B:
                for dst, rv in b['s']:
                    if dst['p']:
                        nm = T.field_names(fn, dst['l'], dst['p'])
                        if nm and 'Context' in strip_ty(fn.local_ty(dst['l'])):
                            written.add(nm[0])
                t = b['t']
                if t['k'] == 'call' and t['dest']['p']:
                    nm = T.field_names(fn, t['dest']['l'], t['dest']['p'])
                    if nm and 'Context' in strip_ty(fn.local_ty(t['dest']['l'])):
                        written.add(nm[0])
            # callee helpers that reset caches
            reach, _ = prog.reach_from([mut])
            for rname in reach:
                if rname == mut or not rname.startswith('context::Context::'):
                    continue
                rf = prog.fn(rname)
                for b in rf.B:
                    for dst, rv in b['s']:
                        if dst['p']:
                            nm = T.field_names(rf, dst['l'], dst['p'])
                            if nm and 'Context' in strip_ty(rf.local_ty(dst['l'])):
                                written.add(nm[0])
            # each cache is reset independently of the state of the other caches: in the resetting helper the write of self.<d> stays reachable when every
            # `if let <Variant> = self.<other cache>` test takes its non-matching edge
            for rname in sorted(reach):
                if not rname.startswith('context::Context::') or '{closure' in rname:
                    continue
                rf = prog.fn(rname)
                wr = {}
                for bi3, b in enumerate(rf.B):
                    for dst, rv in b['s']:
                        if dst['p']:
                            nm = T.field_names(rf, dst['l'], dst['p'])
                            if nm and nm[0] in derived and 'Context' in strip_ty(rf.local_ty(dst['l'])):
                                wr.setdefault(nm[0], set()).add(bi3)
                if len(wr) < 2:
                    continue
                for d in sorted(wr):
                    ok3 = True
                    for bi3, b in enumerate(rf.B):
                        t3 = b['t']
                        if t3['k'] != 'switch':
                            continue
                        term = T.op_term(rf, t3['d'])
                        for o3 in rf.origins(t3['d']):
                            inner = o3[1] if o3[0] in ('discr', 'not') and len(o3) > 1 else o3
                            try:
                                term += ' ' + T.origin_term(rf, inner)[0]
                            except Exception:
                                pass
                        other = [d2 for d2 in derived if d2 != d and re.search(r'self\.%s\b' % re.escape(d2), term)]
                        if not other or not any(w in rf.reachable(bi3) for w in wr[d]) and not any(rf.dominates(bi3, w) for w in wr[d]):
                            continue
                        # the write of self.<d> lies after (or under) a test of another cache: every arm of that test must still reach it
                        arms = [tb for v, tb in t3['ts']] + [t3['o']]
                        for tb in arms:
                            if rf.B[tb]['t']['k'] in ('unreachable', 'stop'):
                                continue
                            if not any(w in rf.reachable(tb) for w in wr[d]):
                                ok3 = False
                    ctx.ob('C26-D6', rname, 'reset of self.%s' % d, 'independent of the state of the other derived caches', ok3,
                           detail='' if ok3 else 'self.%s is only reset inside a branch that tests another cache: with a custom resolver on that side the stale default stack (old allow-list) survives a settings change' % d,
                           site=loc(rf.d['span']))
            for d in sorted(derived):
                ok = d in written
                ctx.ob('C26-D6', mut, 'can change self.settings', 'resets derived cache self.%s' % d, ok,
                       detail='' if ok else '%s can change the settings but never re-initialises self.%s (built once from the old settings): an allow-list configured after the first resolver() call is ignored' % (mut.split('::')[-1], d),
                       site=loc(fn.d['span']))

    # ---- D7 the default sync and async resolver stacks are built alike: same callee methods (Sync/Async in names ignored).  A guard, filter or
    # wrapper present in only one flavour means the allow-list / redirect policy differs between Reader::from_stream and from_stream_async
    import collections as _c
    bs, ba = 'context::Context::build_default_sync_resolver', 'context::Context::build_default_async_resolver'
    if ctx.require(prog.has(bs), bs) and ctx.require(prog.has(ba), ba):
        def seg(n):
            c_ = _c.Counter()
            for bi, t in prog.fn(n).calls():
                c_[re.sub(r'Async|Sync|_async|_sync', '', t['fd'].split('::')[-1])] += 1
            return c_
        a_, b_ = seg(bs), seg(ba)
        ctx.analysed(bs, sum(a_.values())); ctx.analysed(ba, sum(b_.values()))
        ctx.ob('C26-D7', bs, 'default resolver stack, sync vs async', 'built with the same steps', not (a_ - b_) and not (b_ - a_), detail='only sync: %s ; only async: %s' % (dict(a_ - b_), dict(b_ - a_)))

