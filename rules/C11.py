"""C11 The reader's verdict does not depend on a wrong format hint (routing + table agreement)."""
import re
from lib import loc, const_val, classify_ret
from terms import Terms, ret_hits, fact_literals

EXPLANATION = ("MIR rules: in the stream/file reader entry points the caller's format hint is used only as the argument of jumbf_io::format_from_stream and the format handed on "
               "to Store::from_stream is that call's result (def-use); format_from_stream returns the hint only when detection failed or when the hint's container equals the "
               "detected one, otherwise the detected container; every string constant returned by container_from_stream is the first entry (= container id) of some handler's "
               "SUPPORTED_TYPES table, evaluated from the static initialisers; the sniffer fills its header with a count-driven read loop (C35-D1). Equality of whole reports is "
               "not decided; entry points that take a hint but do not sniff (manifest-data / fragment / ingredient variants) are listed in the evidence as outside this clause.")
RULE = "obligation = (entry point, hint routing) / (format_from_stream return, guard) / (sniffer constant, handler table)"
FFS = 'jumbf_io::format_from_stream'
CFS = 'jumbf_io::container_from_stream'


def run(ctx):
    prog = ctx.prog(('c2pa',))
    T = Terms(prog)
    # ---- D1 routing
    callers = [n for n in prog.fns() if any(t['fd'] == FFS for bi, t in prog.fn(n).calls())]
    ctx.floor('callers of format_from_stream', len(callers), 4, rule='C11-D1')
    for name in callers:
        fn = prog.fn(name)
        ctx.analysed(name, len(list(fn.calls())))
        for bi, t in fn.calls():
            if t['fd'] != FFS:
                continue
            hint = T.op_term(fn, t['args'][0])
            # the store loader receives the result of this call
            ok = False
            for b2, t2 in fn.calls():
                if re.search(r'store::Store::(from_stream|from_manifest_data_and_stream)(_async)?$', t2['fd']):
                    ft = T.op_term(fn, t2['args'][0] if 'from_stream' in t2['fd'].split('::')[-1] and 'manifest_data' not in t2['fd'] else t2['args'][1])
                    if 'format_from_stream(' in ft:
                        ok = True
                    else:
                        ctx.ob('C11-D1', name, t2['fd'].split('::')[-1] + '(format, ..)', 'format = format_from_stream(hint, stream)', False, detail='format argument: ' + ft[:100], site=loc(t2['span']))
            ctx.ob('C11-D1', name, 'format_from_stream(hint=%s)' % hint[:40], 'its result is the format handed to the store loader', ok, site=loc(t['span']))
    # entry points taking a format hint without sniffing (informational)
    other = []
    for n in prog.fns():
        d = prog.bodies[n]
        if re.match(r'^reader::Reader::(with_\w+|from_fragment)(_async)?$', n) and d.get('vis') == 'pub' and n not in callers and (n + '::{closure#0}') not in callers:
            if any(prog.fn(n).name_of(k) == 'format' for k in range(1, prog.fn(n).argc + 1)):
                other.append(n.split('::')[-1])
    ctx.note('entry points with a format hint that do not sniff (outside this clause): %s' % sorted(other))
    # ---- D2 decision
    if ctx.require(prog.has(FFS), FFS):
        fn = prog.fn(FFS)
        ctx.analysed(FFS, len(list(fn.calls())))
        eng, hits = ret_hits(fn)
        ctx.states += eng.states
        nhint = ndet = 0
        for cls, facts, env, key, bi in hits:
            v = env.get(0)
            vt = T.atom_term(fn, v) if v else '?'
            L = fact_literals(T, fn, facts)
            det_some = any(re.search(r'container_from_stream', l) and (l.startswith('ok(') or l.endswith('=1')) for l in L) or any('discr(' in l and '.1)=1' in l for l in L)
            det_none = any(re.search(r'container_from_stream', l) and (l.startswith('!ok(') or l.endswith('=0')) for l in L) or any('discr(' in l and '.1)=0' in l for l in L) or any('.1)∉' in l for l in L)
            if 'hint' in vt and 'container' not in vt:
                nhint += 1
                eq = any(re.match(r'^(PartialEq::)?eq\(', l) and not l.startswith('!') for l in L)
                ctx.ob('C11-D2', FFS, 'return hint [%d]' % nhint, 'detection failed, or hinted container == detected container', det_none or eq or not det_some, detail=str(sorted(L))[:300])
            else:
                ndet += 1
                ctx.ob('C11-D2', FFS, 'return detected container [%d]' % ndet, 'value derives from container_from_stream(stream)', 'container_from_stream' in vt or '.1' in vt or 'Some' in vt, detail=vt[:120], nontrivial=False)
        ctx.ob('C11-D2', FFS, 'return classes', 'hint and detected container both reachable', nhint > 0 and ndet > 0, detail='%d/%d' % (nhint, ndet))
    # ---- D3 table agreement
    firsts = {}
    for sname, d in prog.bodies.items():
        if d['kind'] == 'static' and sname.endswith('::SUPPORTED_TYPES'):
            vals = []
            for b in d['blocks']:
                for dst, rv in b['s']:
                    if rv['k'] == 'agg' and rv.get('array'):
                        vals = [const_val(o)[1] for o in rv['ops'] if 'c' in o]
            if vals:
                firsts[vals[0]] = sname
    # handlers whose supported_types() returns an inline (promoted) literal array
    for pr in ctx.facts.crate('c2pa').get('promoted', []):
        vals = [re.match(r'^const "(.*)"$', c).group(1) for c in pr['consts'] if re.match(r'^const "(.*)"$', c)]
        if vals:
            firsts.setdefault(vals[0], pr['f'])
    ctx.floor('handler SUPPORTED_TYPES tables', len(firsts), 11, rule='C11-D3')
    if ctx.require(prog.has(CFS), CFS):
        fn = prog.fn(CFS)
        ctx.analysed(CFS, len(list(fn.calls())))
        consts = set()
        for b in fn.B:
            for dst, rv in b['s']:
                if rv['k'] == 'agg' and rv.get('variant') == 'Some':
                    for o in rv['ops']:
                        for v in ([const_val(o)] if 'c' in o else list(fn.origins(o))):
                            if v[0] == 'str':
                                consts.add(v[1])
        ctx.floor('container ids returned by the sniffer', len(consts), 8, rule='C11-D3')
        for c in sorted(consts):
            ctx.ob('C11-D3', CFS, 'returns Some("%s")' % c, 'is the first entry of a handler SUPPORTED_TYPES table (a container id with a reader)', c in firsts, detail=firsts.get(c, 'no handler table starts with this id'))
        # ---- D4 magic numbers: the published signatures of the containers must be among the byte strings the sniffer compares the header with
        # (independent table from the format specifications; the sniffer's own table is not the reference)
        MAGIC = [
            ('png', 0, (137, 80, 78, 71, 13, 10, 26, 10)),
            ('gif', 0, tuple(b'GIF')), ('gif 87a', 3, tuple(b'87a')), ('gif 89a', 3, tuple(b'89a')),
            ('tiff little-endian', 0, (73, 73, 42, 0)), ('tiff big-endian', 0, (77, 77, 0, 42)),
            ('bigtiff little-endian', 0, (73, 73, 43, 0)), ('bigtiff big-endian', 0, (77, 77, 0, 43)),
            ('jpeg xl container', 0, (0, 0, 0, 12, 74, 88, 76, 32, 13, 10, 135, 10)),
            ('riff', 0, tuple(b'RIFF')), ('iso bmff ftyp', 4, tuple(b'ftyp')), ('flac', 0, tuple(b'fLaC')), ('id3', 0, tuple(b'ID3')), ('pdf', 0, tuple(b'%PDF')),
        ]
        found = set()
        for bi, t in fn.calls():
            if not (t['fd'].endswith('PartialEq::eq') or t['fd'].endswith('starts_with')):
                continue
            term = T.call_term(fn, bi)
            m = re.search(r'Range\((\d+),(\d+)\)\),(.*)\)$', term)
            off = int(m.group(1)) if m else 0
            val = m.group(3) if m else term.split(',', 1)[-1].rstrip(')')
            mb = re.fullmatch(r'b"(.*)"', val)
            if mb:
                by = tuple(mb.group(1).encode('latin1'))
            elif re.fullmatch(r'\((\d+,)*\d+\)', val):
                by = tuple(int(x) for x in val.strip('()').split(','))
            else:
                continue
            found.add((off, by))
        ctx.floor('header comparisons with byte-string constants in the sniffer', len(found), 12, rule='C11-D4')
        for nm, off, by in MAGIC:
            ctx.ob('C11-D4', CFS, 'signature of ' + nm, 'compared at offset %d with the bytes %s' % (off, ' '.join('%02X' % x for x in by)), (off, by) in found,
                   detail='' if (off, by) in found else 'sniffer compares offset %d with: %s' % (off, sorted(' '.join('%02X' % x for x in b2) for o2, b2 in found if o2 == off)[:8]))

