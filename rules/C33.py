"""C33 CAWG identity assertions bind exactly the referenced assertions (code-scope and obligation clauses)."""
import re
import collections
from lib import CallGuard, loc, rv_operands
from terms import Terms
import logs
import oblig
import rlogged
import discipline
import C04

EXPLANATION = ("Inventory + all-paths rules over sdk/src/identity/**: every Failure-kind log site has a compile-time status code, and each code must be accepted by the manifest "
               "tolerance predicate evaluated in C04 (only cawg.x509.* and signingCredential.untrusted are tolerated) or be logged as informational - otherwise a CAWG failure "
               "makes the C2PA manifest Invalid; because CawgValidator discards validate_partial_claim's result with .ok(), every Err exit of the identity validation chain must "
               "have logged a status (R-LOGGED); cawg success codes are logged only on the Ok edge of the signature verification; the trust material used for CAWG validation "
               "comes from settings.cawg_trust.* only. The cryptographic binding itself is not decided.")
RULE = "obligation = one identity log site (function, code) / one Err exit / one settings field read"


def run(ctx):
    prog = ctx.prog(('c2pa',))
    consts = logs.const_strings(prog)
    T = Terms(prog)
    # tolerance predicate (same folding as C04-D4)
    s, dnf = T.truth_dnf(C04.TOL)
    short_consts = {}
    for k, v in consts.items():
        short_consts.setdefault(k.split('::')[-1], set()).add(v)

    def tolerated(code):
        if dnf is None:
            return None
        for conj in dnf:
            vals = []
            for l in conj:
                neg = l.startswith('!')
                ll = l[1:] if neg else l
                m = re.fullmatch(r'PartialEq::eq\((\w+),(\w+)\)', ll)
                m2 = re.fullmatch(r'(?:str::)?starts_with\((\w+),(\w+)\)', ll)
                if m and m.group(2) in short_consts and len(short_consts[m.group(2)]) == 1:
                    r = code == next(iter(short_consts[m.group(2)]))
                elif m2 and m2.group(2) in short_consts and len(short_consts[m2.group(2)]) == 1:
                    r = code.startswith(next(iter(short_consts[m2.group(2)])))
                else:
                    return None
                vals.append((not r) if neg else r)
            if all(vals):
                return True
        return False
    nsite = 0
    seen = set()
    for name in sorted(prog.fns()):
        fn = prog.fn(name)
        if not fn.d['span']['file'].startswith('sdk/src/identity/'):
            continue
        sites = logs.log_sites(prog, fn, consts)
        if not sites:
            continue
        ctx.analysed(name, len(sites))
        for st in sites:
            nsite += 1
            base = re.sub(r'(_async)?(::\{closure#\d+\})*$', '', name)
            base = base[:-6] if base.endswith('_async') else base
            for k, v in st['codes']:
                if st['kind'] != 'failure':
                    continue
                if k != 'str':
                    ctx.ob('C33-D1', base, 'Failure log with a non-constant code', 'compile-time code', name.endswith('handle_non_fatal_error'), detail='code is %s (tabled: forwards a code chosen by its callers)' % (v,), site=loc(st['span']), nontrivial=False)
                    continue
                key = (base, v)
                if key in seen:
                    continue
                seen.add(key)
                tol = tolerated(v)
                ctx.ob('C33-D1', base, 'Failure log ' + v, 'code is tolerated by the manifest state (cawg.x509.* ) or logged as informational', bool(tol),
                       detail='' if tol else 'CAWG failure code %s is logged as a Failure but is not tolerated by validation_state: it makes the C2PA manifest Invalid' % v, site=loc(st['span']))
    ctx.floor('log sites in sdk/src/identity', nsite, 40, rule='C33-D1')
    # ---- D2 R-LOGGED under the discarding caller
    disc = []
    for name in prog.fns():
        fn = prog.fn(name)
        if not fn.d['span']['file'].startswith('sdk/src/identity/validator.rs'):
            continue
        for bi, t in fn.calls():
            if re.search(r'validate_partial_claim(_async)?$|IdentityAssertion::validate', t['fd']):
                cons = discipline.consumers(fn, bi)
                kinds = sorted(set(c[0] for c in cons))
                disc.append((name, t['fd'], kinds))
                ctx.ob('C33-D2', name, 'result of ' + t['fd'].split('::')[-1], 'discarded (.ok()) or propagated', set(kinds) <= {'discard', 'propagate', 'dropped'}, detail=str(kinds), site=loc(t['span']), nontrivial=False)
    ctx.floor('validate_partial_claim call sites in CawgValidator', len(disc), 1, rule='C33-D2')
    memo = {}
    chain = ['identity::identity_assertion::assertion::IdentityAssertion::validate_partial_claim',
             'identity::identity_assertion::signer_payload::SignerPayload::check_against_partial_claim',
             'identity::identity_assertion::assertion::IdentityAssertion::check_padding']
    for name in chain:
        if not ctx.require(prog.has(name), name):
            continue
        fn = prog.fn(name)
        ctx.analysed(name, len(list(fn.calls())))
        ex = rlogged.unlogged_err_exits(prog, fn, 0, memo, log_re=rlogged.ANY_LOG)
        for i, desc, site in ex:
            if 'check_against_partial_claim' in desc or 'check_padding' in desc:
                continue   # reported at its origin
            ctx.ob('C33-D2', name, 'Err exit: ' + desc, 'a cawg.* status is logged before returning Err (the caller discards the error)', False,
                   detail='Err exit at %s logs no status while CawgValidator discards the result: the problem produces no CAWG code at all' % site, site=site)
        ctx.ob('C33-D2', name, 'Err exits', '%d without a log' % len(ex), True, nontrivial=False)
    # ---- D2b success soundness
    for name in prog.fns():
        if not re.match(r'^identity::identity_assertion::assertion::IdentityAssertion::validate_partial_claim(_async::\{closure#0\})?$', name):
            continue
        fn = prog.fn(name)
        sites = logs.log_sites(prog, fn, consts)
        for code in ('cawg.identity.well-formed', 'cawg.x509.signature.validated'):
            bl = set(x['bi'] for x in sites if ('str', code) in x['codes'] and x['kind'] == 'success')
            if not bl:
                continue
            if '_async' in name:
                g = oblig.TermGuard(T, r'verify_signature|check_signature|check_x509_cose_signature', 'ok', name='signature verification = Ok', call_pat=r'Future::poll$|verify_signature|check_signature')
            else:
                g = CallGuard(r'verify_signature$|check_signature$|check_x509_cose_signature$|X509SignatureVerifier', 'ok', name='signature verification = Ok')
            g2 = CallGuard(r'check_against_partial_claim$', 'ok', name='check_against_partial_claim = Ok')
            oblig.effect_requires(ctx, 'C33-D2b', fn, 'success log ' + code, lambda bi, b, _b=bl: bi in _b, [g, g2])
    # ---- D4 trust material for CAWG comes from settings.cawg_trust only
    fields = collections.Counter()
    for name in prog.fns():
        fn = prog.fn(name)
        if not fn.d['span']['file'].startswith('sdk/src/identity/'):
            continue
        for b in fn.B:
            for dst, rv in b['s']:
                for o in rv_operands(rv) + ([{'l': rv['pl']['l'], 'p': rv['pl']['p']}] if 'pl' in rv else []):
                    if 'l' in o and o.get('p'):
                        tt = T.op_term(fn, o)
                        m = re.search(r'settings(\([\w.]*\))?\.(\w+)\.(\w+)', tt)
                        if m:
                            fields[(m.group(2), m.group(3), re.sub(r'(_async)?(::\{closure#\d+\})*$', '', name))] += 1
    ctx.floor('settings field reads in sdk/src/identity', len(fields), 5, rule='C33-D4')
    for (sec, fld, fnn), n in sorted(fields.items()):
        ok = sec in ('cawg_trust', 'core', 'verify') and not (sec != 'cawg_trust' and re.search(r'anchor|allowed_list|trust_config', fld))
        ctx.ob('C33-D4', fnn, 'reads settings.%s.%s' % (sec, fld), 'identity validation takes trust material from settings.cawg_trust.* only', ok,
               detail='' if ok else 'CAWG identity validation reads C2PA trust settings settings.%s.%s instead of settings.cawg_trust' % (sec, fld))

    # ---- D5 one code, one kind: CAWG status codes are not in the core code table, so their kind is taken from the sibling sites -- a code that is
    # logged as a failure at one site of the identity module must not be logged as informational/success at another (a downgraded failure validates)
    import collections as _c
    bycode = _c.defaultdict(lambda: _c.defaultdict(list))
    for n2 in prog.fns():
        if 'identity' not in n2:
            continue
        f2 = prog.fn(n2)
        for s_ in logs.log_sites(prog, f2, consts):
            for k_, v_ in s_['codes']:
                if k_ == 'str':
                    bycode[v_][s_['kind']].append((n2, s_['bi']))
    ctx.floor('status codes logged by the identity module', len(bycode), 15, rule='C33-D5')
    for code, kinds in sorted(bycode.items()):
        ctx.ob('C33-D5', 'identity', 'status code ' + code, 'logged with one kind at every site', len(kinds) == 1,
               detail='' if len(kinds) == 1 else 'logged as %s' % {k: sorted(set(x[0].split('::')[-1] for x in v))[:3] for k, v in kinds.items()})

    # ---- D6 sibling agreement: check_against_partial_claim (Reader / CawgValidator path) and check_against_manifest (builder path) report a changed
    # referenced assertion the same way: the Failure log decided by the hash comparison has the same two nearest deciding conditions in both
    # (compared by call skeleton, the collections they iterate differ by design)
    import decisions
    sib = [n for n in prog.fns() if re.search(r'signer_payload::SignerPayload::check_against_(partial_claim|manifest)$', n)]
    if ctx.ob('C33-D6', 'signer_payload', 'sibling checkers', 'both present', len(sib) == 2, detail=str(sib), nontrivial=False):
        def skeleton(term):
            return ' '.join(re.findall(r'[!A-Za-z_][\w:]*(?=\()', term)) + ' -> ' + term.rsplit('->', 1)[-1].strip()
        sk = {}
        for n2 in sib:
            f2 = prog.fn(n2)
            ctx.analysed(n2, len(list(f2.calls())))
            rows = []
            # the hash comparison of the claim's assertion with the referenced one, and the conditions under which it is evaluated
            for bi2, t2 in f2.calls():
                if re.search(r'PartialEq::(ne|eq)$', t2['fd']):
                    tt = T.call_term(f2, bi2)
                    if tt.count('HashedUri::hash(') >= 2:
                        d_ = decisions.decisions_for_block(f2, T, bi2, 2)
                        rows.append(tuple(skeleton(x) for x in d_))
            for b2 in range(len(f2.B)):
                for dst2, rv2 in f2.B[b2]['s']:
                    if rv2['k'] == 'bin' and rv2['op'] in ('Eq', 'Ne') and (T.op_term(f2, rv2['a']) + T.op_term(f2, rv2['b'])).count('HashedUri::hash(') >= 2:
                        rows.append(tuple(skeleton(x) for x in decisions.decisions_for_block(f2, T, b2, 2)))
            sk[n2] = sorted(rows)
        ctx.ob('C33-D6', 'signer_payload', 'hash comparison of a referenced assertion', 'present in both checkers', all(sk[n2] for n2 in sib), detail=str({k.split('::')[-1]: v for k, v in sk.items()})[:300])
        ctx.ob('C33-D6', 'signer_payload', 'hash comparison of a referenced assertion', 'evaluated under the same conditions in check_against_partial_claim and check_against_manifest', sk[sib[0]] == sk[sib[1]],
               detail=str({k.split('::')[-1]: v for k, v in sk.items()})[:400])

