"""C23 Cancellation is always reported as cancellation (error discipline)."""
import re
import collections
from lib import loc, classify_ret, Engine, FROM_RESIDUAL, TRY_BRANCH, is_result_ty, const_val
from terms import Terms, ret_hits, fact_literals
import discipline

EXPLANATION = ("Result-discipline analysis over the resolved workspace call graph: the set T of functions that may return the cancellation "
               "error is computed callback-parametrically (a function that only invokes/forwards a progress-callback parameter may cancel iff the "
               "closure passed at the call site may); every call site of a T function is classified by forward def-use of its result "
               "(?/tail return = propagates; match/if-let = inspected, then the Err edge restricted to the OperationCancelled variant must return Err on "
               "every path; ok()/unwrap_or/is_ok/let _/stored/passed = converted). Context::check_progress itself is checked path-sensitively. "
               "Progress values are decided only where both arguments are literals.")
RULE = "obligation = (caller, may-cancel call site, consumer construct); non-trivial = the callee is in T by transitive reachability, not the seed itself"

CP = 'context::Context::check_progress'
# consumer sites accepted with a reason (exact keys)
TABLED = {
    'C23-D1|store::Store::get_ocsp_status|claim::check_ocsp_status|inspect': 'Option<String>-returning status accessor: cannot express an error; its only checkpoint is the OCSP fetch (see C23-c note)',
    'C23-D1|store::Store::get_ocsp_status_async::{closure#0}|claim::check_ocsp_status_async|inspect': 'as above (async flavour)',
}


def err_arm_escapes(prog, fn, carriers_local_is_result, start_blocks, cancel_idx, stop_blocks=()):
    """forward exploration from the Err-edge blocks: is there a path to a return whose value is not Err,
    following at switches on the *error payload's* discriminant only the edge the OperationCancelled variant takes?"""
    seen = set()
    work = [(b, False) for b in start_blocks]
    # locals that hold discr(error payload)
    errdiscr = {}
    for i, b in enumerate(fn.B):
        for dst, rv in b['s']:
            if rv['k'] == 'discr' and not dst['p']:
                ty = fn.local_ty(rv['pl']['l'])
                proj = rv['pl']['p']
                if 'error::Error' in ty and (any(p.startswith('as Err') for p in proj) or ty.strip().endswith('error::Error')) and not is_result_ty(ty) or (is_result_ty(ty) and any(p.startswith('as Err') for p in proj)):
                    errdiscr[dst['l']] = True
    while work:
        b, e = work.pop()
        if (b, e) in seen:
            continue
        seen.add((b, e))
        if b in stop_blocks:
            continue    # the value is handed to a callee that returns the cancellation, and `?` propagates it here
        blk = fn.B[b]
        for dst, rv in blk['s']:
            if dst['l'] == 0 and not dst['p']:
                e = (rv['k'] == 'agg' and rv.get('variant') == 'Err')
                if rv['k'] == 'use' and 'l' in rv['o']:
                    e = True if is_result_ty(fn.local_ty(rv['o']['l'])) and False else e
        t = blk['t']
        if t['k'] == 'call' and t['dest']['l'] == 0 and not t['dest']['p']:
            e = t['fd'] == FROM_RESIDUAL
        if t['k'] == 'ret':
            if not e:
                return b
            continue
        if t['k'] == 'stop':
            continue
        if t['k'] == 'switch' and 'l' in t['d'] and t['d']['l'] in errdiscr and cancel_idx is not None:
            tgt = None
            for v, tb in t['ts']:
                if v == cancel_idx:
                    tgt = tb
            work.append((tgt if tgt is not None else t['o'], e))
            continue
        for s in fn.succs(b):
            work.append((s, e))
    return None


def deep_origins(fn, op, depth=0):
    """origins of an operand, looking through tuple/variant aggregates"""
    out = set()
    if depth > 8:
        return out
    for o in fn.origins(op):
        if o[0] == 'field' and o[1][0] == 'agg':
            rv = fn.B[o[1][1]]['s'][o[1][2]][1]
            fl = [p for p in o[2] if p.startswith('.')]
            if fl and rv.get('ops') and int(fl[0][1:]) < len(rv['ops']):
                out |= deep_origins(fn, rv['ops'][int(fl[0][1:])], depth + 1)
                continue
        if o[0] == 'agg':
            rv = fn.B[o[1]]['s'][o[2]][1]
            if rv.get('variant') in ('Err', 'Ok', 'Some') and rv.get('ops'):
                out |= set(('wrap:' + rv['variant'], x) for x in deep_origins(fn, rv['ops'][0], depth + 1))
                continue
        out.add(o)
    return out


def derives_from_call(fn, b0, call_bi, depth=0):
    """is the result of call b0 the (mapped / awaited) result of call_bi?"""
    if b0 == call_bi:
        return True
    if depth > 5:
        return False
    t0 = fn.B[b0]['t']
    if t0['fd'] not in discipline.FOLLOW and not t0['fd'].endswith('::poll'):
        return False
    for a in t0['args'][:1]:
        if 'l' in a:
            for o in fn.origins(a):
                if o[0] == 'call' and derives_from_call(fn, o[1], call_bi, depth + 1):
                    return True
                if o[0] == 'field' and o[1][0] == 'call' and all(p.startswith('as Ready') or p == '.0' for p in o[2]) and derives_from_call(fn, o[1][1], call_bi, depth + 1):
                    return True   # the awaited value of the future
    return False


def err_rewrapped_into(fn, call_bi, handler_blocks):
    """handler call blocks whose Result argument is (a re-wrapped) Err payload of the call at call_bi"""
    hit = set()
    for cb in handler_blocks:
        ct = fn.B[cb]['t']
        for a in ct['args']:
            if 'l' not in a or not is_result_ty(fn.local_ty(a['l'])):
                continue
            for o in deep_origins(fn, a):
                if o[0] == 'wrap:Err' and o[1][0] == 'field' and any(p.startswith('as Err') for p in o[1][2]):
                    base = o[1][1]
                    # the awaited value:  ((poll as Ready).0 as Err).0
                    while base[0] == 'field' and all(p.startswith('as Ready') or p == '.0' for p in base[2]):
                        base = base[1]
                    if base[0] == 'call' and derives_from_call(fn, base[1], call_bi):
                        hit.add(cb)
    return hit


def passed_ok(prog, f2, cb, cancel_idx):
    """the Result is handed to a workspace function that returns the cancellation for this argument (its Err arm restricted to
    OperationCancelled reaches only Err returns) and whose own result is propagated by the caller"""
    ct = f2.B[cb]['t']
    for g in prog.callee_targets(ct):
        gf = prog.fn(g)
        for ai, a in enumerate(ct['args']):
            if 'l' in a and is_result_ty(f2.local_ty(a['l'])) and ai + 1 <= gf.argc:
                pl = ai + 1
                starts = []
                for b3, blk in enumerate(gf.B):
                    sw = blk['t']
                    if sw['k'] == 'switch' and 'l' in sw['d']:
                        for df in gf.defs.get(sw['d']['l'], ()):
                            if df[0] == 'stmt' and df[3]['k'] == 'discr' and df[3]['pl']['l'] == pl and not [p for p in df[3]['pl']['p'] if p != '*']:
                                okt = [tb for v, tb in sw['ts'] if v == 0]
                                starts = [tb for v, tb in sw['ts'] if v != 0]
                                if sw['o'] not in okt and len(sw['ts']) < 2:
                                    starts.append(sw['o'])
                if starts and err_arm_escapes(prog, gf, True, starts, cancel_idx) is None:
                    own = sorted(set(c[0] for c in discipline.consumers(f2, cb)))
                    if own == ['propagate']:
                        return True
    return False


def run(ctx):
    prog = ctx.prog(('c2pa',))
    T = Terms(prog)
    if not ctx.require(prog.has(CP), CP):
        return
    # ---- D2 the checkpoint itself
    fn = prog.fn(CP)
    ctx.analysed(CP, len(list(fn.calls())))
    eng, hits = ret_hits(fn)
    ctx.states += eng.states
    nerr = 0
    for cls, facts, env, key, bi in hits:
        v = env.get(0)
        L = fact_literals(T, fn, facts)
        if cls == 'Err':
            nerr += 1
            var = v[3][0][2] if v and v[3] and v[3][0][0] == 'variant' else '?'
            ctx.ob('C23-D2', CP, 'return Err', 'variant is OperationCancelled', var == 'OperationCancelled', detail='returns Err(%s)' % var)
        elif cls == 'Ok':
            cb_ok = any(re.search(r'^!ok\(.*progress_callback', l) for l in L) or any((not l.startswith('!')) and 'call' in l.lower() and 'progress_callback' in l for l in L)
            flag_false = any(l.startswith('!') and 'cancel_flag' in l for l in L)
            ctx.ob('C23-D2', CP, 'return Ok', 'callback absent or returned true', cb_ok, detail=str(sorted(L)))
            ctx.ob('C23-D2', CP, 'return Ok', 'cancel flag read false', flag_false, detail=str(sorted(L)))
        else:
            ctx.ob('C23-D2', CP, 'return ' + cls, 'Ok or Err(OperationCancelled)', False)
    ctx.floor('Err returns of check_progress', nerr, 2, rule='C23-D2')
    eadt = prog.adts.get('error::Error')
    cancel_idx = None
    if ctx.require(eadt is not None, 'error::Error (adt)'):
        names = [v['name'] for v in eadt['variants']]
        if ctx.require('OperationCancelled' in names, 'error::Error::OperationCancelled'):
            cancel_idx = names.index('OperationCancelled')
    # OperationCancelled is constructed nowhere else
    for name in prog.fns():
        if name == CP:
            continue
        f2 = prog.fn(name)
        for b in f2.B:
            for dst, rv in b['s']:
                if rv['k'] == 'agg' and rv.get('adt') == 'error::Error' and rv.get('variant') == 'OperationCancelled':
                    ctx.ob('C23-D2', name, 'constructs Error::OperationCancelled', 'only Context::check_progress does', name.startswith('context::Context::'),
                           detail='constructed at ' + loc(rv.get('span')), info=True)
    # ---- D1 no swallowed cancellation
    mc = discipline.MayCancel(prog, CP)
    ctx.floor('functions that may cancel (T)', len(mc.T), 100, rule='C23-D1')
    ctx.note('|T| = %d, progress-parameter functions = %d' % (len(mc.T), len(mc.invokes)))
    nsites = 0
    ncp = 0
    counts = collections.Counter()
    for name in prog.fns():
        f2 = prog.fn(name)
        for bi, t in f2.calls():
            if t['fd'] == CP:
                ncp += 1
            if t['fd'].startswith('std::') or t['fd'].startswith('core::'):
                if t['fd'] not in discipline.MayCancel.CALLS:
                    continue
            if not mc.site_may_cancel(f2, bi, t):
                continue
            dty = f2.local_ty(t['dest']['l'])
            if not is_result_ty(dty):
                # a callee that does not return a Result swallowed (or cannot express) the error itself: reported inside it.
                # async callees: look at the coroutine's return type
                tgts = prog.callee_targets(t)
                cr = [prog.bodies[g + '::{closure#0}']['ret'] for g in tgts if (g + '::{closure#0}') in prog.bodies]
                if dty.startswith('Alias(') or 'Future' in dty:
                    if cr and not any(is_result_ty(x) for x in cr):
                        continue
                    if not cr and 'Output = std::result::Result' not in t['f'] and 'Result' not in dty:
                        pass
                else:
                    continue
            nsites += 1
            ctx.analysed(name, 1)
            cons = discipline.consumers(f2, bi)
            callee = (t.get('r') or t['fd'])
            # error mappers on the way: `may_cancel(..).map_err(|e| Error::Other(..))?` re-labels EVERY error, the cancellation included
            for mb, mt in f2.calls():
                if not re.search(r'Result::<T, E>::(map_err|or_else)$', mt['fd']) or not mt['args']:
                    continue
                if not any(o == ('call', bi) or (o[0] == 'field' and o[1] == ('call', bi)) for o in f2.origins(mt['args'][0])):
                    continue
                cl = None
                for a in mt['args'][1:]:
                    if 'l' in a and f2.locals[a['l']].get('closure'):
                        cl = f2.locals[a['l']]['closure']
                if cl is None or not prog.has(cl):
                    fnitem = [T.op_term(f2, a) for a in mt['args'][1:]]
                    okm = any(re.search(r'From::from|Into::into|fn:', x) for x in fnitem)
                    ctx.ob('C23-D1', name, callee, 'map_err', okm, detail='mapped by %s' % fnitem, site=loc(mt['span']), nontrivial=False)
                    continue
                cfn = prog.fn(cl)
                pname = cfn.name_of(2) if cfn.argc >= 2 else None
                inspects = False
                for b in cfn.B:
                    if b['t']['k'] == 'switch':
                        dt = T.op_term(cfn, b['t']['d'])
                        if pname and re.search(r'(^|[(,.!])%s([).,]|$)' % re.escape(pname), dt) and dt.startswith(('discr(', 'matches', 'PartialEq')):
                            inspects = True
                builds = [rv.get('variant') for b in cfn.B for dst, rv in b['s'] if rv['k'] == 'agg' and str(rv.get('adt', '')).endswith('error::Error')]
                returns_param = not builds
                okm = inspects or returns_param or builds == ['OperationCancelled']
                base = 'C23-D1|%s|%s|map_err' % (name, callee)
                if not okm and base in TABLED:
                    ctx.ob('C23-D1', name, callee, 'map_err', True, detail='tabled: ' + TABLED[base], site=loc(mt['span']))
                    continue
                ctx.ob('C23-D1', name, callee, 'map_err', okm,
                       detail='' if okm else 'the Result of %s (may return OperationCancelled) goes through map_err at %s whose closure turns every error into Error::%s without looking at it: a cancellation is re-labelled' % (
                           callee.split('::')[-1], loc(mt['span']), '/'.join(str(x) for x in builds)), site=loc(t['span']))
            accepted_pass = set()
            for kind, detail, cb in cons:
                if kind == 'passed' and passed_ok(prog, f2, cb, cancel_idx):
                    accepted_pass.add(cb)
            if any(k_ == 'inspect' for k_, _d, _c in cons):
                # the Err payload may be re-wrapped (`Err(err) => (Err(err), None)`) and handed to a cancellation-propagating handler
                handlers = set(b4 for b4, t4 in f2.calls() if b4 != bi and prog.callee_targets(t4) and any('l' in a and is_result_ty(f2.local_ty(a['l'])) for a in t4['args']))
                for hb in err_rewrapped_into(f2, bi, handlers):
                    if passed_ok(prog, f2, hb, cancel_idx):
                        accepted_pass.add(hb)
            for kind, detail, cb in cons:
                counts[kind] += 1
                base = 'C23-D1|%s|%s|%s' % (name, callee, kind)
                if kind == 'propagate':
                    ctx.ob('C23-D1', name, callee, 'propagate', True, detail=detail, site=loc(t['span']), nontrivial=(t['fd'] != CP))
                    continue
                if kind == 'inspect':
                    # Err edge(s) of the switch in block cb
                    sw = f2.B[cb]['t']
                    starts = []
                    if sw['k'] == 'switch':
                        okt = [tb for v, tb in sw['ts'] if v == 0]
                        starts = [tb for v, tb in sw['ts'] if v != 0]
                        if sw['o'] not in okt and (len(sw['ts']) < 2):
                            starts.append(sw['o'])
                    esc = err_arm_escapes(prog, f2, True, starts, cancel_idx, stop_blocks=accepted_pass) if starts else None
                    ok = esc is None
                    if not ok and base in TABLED:
                        ctx.ob('C23-D1', name, callee, kind, True, detail='tabled: ' + TABLED[base], site=loc(t['span']))
                        continue
                    ctx.ob('C23-D1', name, callee, kind, ok,
                           detail='' if ok else 'the Result of %s (may return OperationCancelled) is matched at %s and its Err arm can reach a non-Err return (line %s): cancellation is converted/swallowed' % (
                               callee.split('::')[-1], loc(sw.get('span')), f2.B[esc]['t'].get('span', {}).get('l')),
                           site=loc(t['span']))
                    continue
                if base in TABLED:
                    ctx.ob('C23-D1', name, callee, kind, True, detail='tabled: ' + TABLED[base], site=loc(t['span']))
                    continue
                if kind == 'passed' and cb in accepted_pass:
                    ctx.ob('C23-D1', name, callee, kind, True, detail='handed to %s, which returns OperationCancelled for this argument; its result is propagated' % detail.split('::')[-1], site=loc(t['span']))
                    continue
                ctx.ob('C23-D1', name, callee, kind, False,
                       detail='the Result of %s (may return OperationCancelled) is consumed by %s at %s: cancellation is not propagated' % (callee.split('::')[-1], detail, loc(f2.B[cb]['t'].get('span') or t['span'])),
                       site=loc(t['span']))
    ctx.floor('may-cancel call sites', nsites, 140, rule='C23-D1')
    ctx.floor('check_progress call sites', ncp, 28, rule='C23-D3')
    ctx.note('consumer kinds: %s' % dict(counts))
    # ---- D3 literal progress arguments
    nlit = 0
    for name in prog.fns():
        f2 = prog.fn(name)
        for bi, t in f2.calls():
            if t['fd'] != CP:
                continue
            a_step, a_total = t['args'][2], t['args'][3]
            if 'c' in a_step and 'c' in a_total:
                vs, vt = const_val(a_step), const_val(a_total)
                if vs[0] == 'const' and vt[0] == 'const':
                    nlit += 1
                    ok = vs[1] >= 1 and (vt[1] == 0 or vs[1] <= vt[1])
                    ctx.ob('C23-D3', name, 'check_progress(step=%d,total=%d)' % (vs[1], vt[1]), '1 <= step and (total = 0 or step <= total)', ok, site=loc(t['span']), nontrivial=False)
            elif 'c' in a_step:
                vs = const_val(a_step)
                if vs[0] == 'const':
                    ctx.ob('C23-D3', name, 'check_progress(step=%d,total=var)' % vs[1], 'step >= 1', vs[1] >= 1, site=loc(t['span']), nontrivial=False)
    ctx.floor('literal (step,total) checkpoint sites', nlit, 10, rule='C23-D3')
    # ---- D4 chunked hashing: one callback per chunk read, so the announced total per range must be the ceiling of (range length / chunk size)
    # with the same chunk size the read loop uses (step <= total needs it; floor(len/chunk).max(1) is one short for a partial last chunk)
    HF = 'utils::hash_utils::hash_stream_by_alg_with_progress_impl'
    if ctx.require(prog.has(HF), HF):
        hf = prog.fn(HF)
        chunk_bound = set()
        for bi, t in hf.calls():
            if re.search(r'cmp::min$|Ord::min$', t['fd']):
                m = re.match(r'^min\((.*),(.*)\)$', T.call_term(hf, bi))
                if m:
                    chunk_bound.add(re.sub(r'^NonZero::get\((.*)\)$', r'\1', m.group(2)))
        ceils = []
        for n2 in prog.fns():
            if n2 == HF or n2.startswith(HF + '::{closure'):
                f2 = prog.fn(n2)
                for bi, t in f2.calls():
                    if t['fd'].endswith('::div_ceil'):
                        ceils.append(T.call_term(f2, bi))
                for blk in f2.B:
                    for dst, rv in blk['s']:
                        if rv['k'] == 'bin' and rv['op'] == 'Div':
                            a, b2 = T.op_term(f2, rv['a']), T.op_term(f2, rv['b'])
                            if re.search(r'addwithoverflow\(.*subwithoverflow\(%s,1\)' % re.escape(b2), a):
                                ceils.append('div_ceil(%s,%s)' % (a, b2))
        ok = any(any(c.endswith(',%s)' % cb) for cb in chunk_bound) and re.search(r'RangeInclusive::end\(', c) for c in ceils)
        ctx.ob('C23-D4', HF, 'total announced for the Hashing phase', 'sum over ranges of ceil(range length / chunk size), chunk size = the bound of the read buffer', ok,
               detail='ceil divisions: %s; chunk bound: %s' % ([c[:90] for c in ceils], sorted(chunk_bound)))

