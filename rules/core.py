"""Check context: obligations, floors, known findings, evidence."""
import json
import os
import re
import time

VERIF = os.path.dirname(os.path.dirname(os.path.abspath(__file__)))
EVDIR = os.environ.get('VERIF_EVIDENCE_DIR') or os.path.join(VERIF, 'evidence')


class Ctx:
    def __init__(self, pid, tier, facts):
        self.pid = pid
        self.tier = tier
        self.facts = facts
        self.obs = []          # dicts
        self.functions = set()
        self.call_sites = 0
        self.notes = []
        self.assumptions = []
        self.trusted = []
        self.t0 = time.time()
        self._ord = {}
        self._progs = {}
        self.states = 0

    def prog(self, crates=('c2pa',)):
        from lib import Program
        k = tuple(crates)
        if k not in self._progs:
            self._progs[k] = Program(self.facts, crates)
        return self._progs[k]

    def analysed(self, fn_name, ncalls=0):
        self.functions.add(fn_name)
        self.call_sites += ncalls

    def ob(self, rule, fn, effect, guard, ok, detail='', site=None, witness=None, nontrivial=True, info=False):
        base = '%s|%s|%s|%s' % (rule, fn, effect, guard)
        n = self._ord.get(base, 0)
        self._ord[base] = n + 1
        key = base + ('|%d' % n if n else '')
        self.obs.append({'key': key, 'rule': rule, 'fn': fn, 'effect': effect, 'guard': guard, 'ok': bool(ok),
                         'detail': detail, 'site': site, 'witness': witness, 'nontrivial': nontrivial, 'info': info})
        return ok

    def require(self, cond, what, rule='anchor'):
        """fail closed on a missing anchor"""
        return self.ob(rule, '-', what, 'resolves', bool(cond), detail='' if cond else 'anchor/table entry no longer resolves: ' + what, nontrivial=False)

    def floor(self, what, found, minimum, rule='floor'):
        return self.ob(rule, '-', what, '>=%d' % minimum, found >= minimum,
                       detail='%s: found %d, confirmed-by-hand floor %d' % (what, found, minimum), nontrivial=False)

    def note(self, s):
        self.notes.append(s)


def load_known():
    p = os.path.join(VERIF, 'known_findings.json')
    if not os.path.exists(p):
        return {'findings': [], 'fixed': []}
    return json.load(open(p))


def finish(ctx, level_text, explanation, rule_text):
    known = load_known()
    kmap = {}
    for f in known.get('findings', []):
        if f['property'] == ctx.pid:
            kmap[f['key']] = f
    viol = []
    knownhits = []
    for o in ctx.obs:
        if o['ok'] or o['info']:
            continue
        if o['key'] in kmap:
            knownhits.append(o)
        else:
            viol.append(o)
    vdir = os.path.join(EVDIR, ctx.pid + '.violations')
    if os.path.isdir(vdir):
        for f in os.listdir(vdir):
            os.unlink(os.path.join(vdir, f))
    for o in knownhits:
        print('KNOWN-FINDING: property=%s %s -- %s' % (ctx.pid, o['key'], kmap[o['key']].get('what', o['detail'])))
    for o in ctx.obs:
        if o['info'] and not o['ok']:
            print('NOTE: property=%s %s -- %s' % (ctx.pid, o['key'], o['detail']))
    for i, o in enumerate(viol):
        os.makedirs(vdir, exist_ok=True)
        fn = re.sub(r'[^A-Za-z0-9_.-]+', '_', o['key'])[:150] + '.json'
        path = os.path.join(vdir, fn)
        json.dump(o, open(path, 'w'), indent=1)
        print('VIOLATION property=%s replay=%s' % (ctx.pid, path))
        print('   rule=%s fn=%s effect=%s guard=%s site=%s\n   %s' % (o['rule'], o['fn'], o['effect'], o['guard'], o['site'], o['detail']))
        if o.get('witness'):
            print('   witness: %s' % (o['witness'],))
    real = [o for o in ctx.obs if not o['info']]
    nontriv = set((o['fn'], o['effect'], o['guard']) for o in real if o['nontrivial'])
    samples = []
    for o in real:
        if o['nontrivial'] and len(samples) < 12:
            samples.append({k: o[k] for k in ('key', 'ok', 'detail', 'site')})
    for o in real:
        if not o['ok'] and len(samples) < 40:
            samples.append({k: o[k] for k in ('key', 'ok', 'detail', 'site', 'witness')})
    ev = {
        'property_id': ctx.pid,
        'tier': ctx.tier,
        'seed': int(os.environ.get('VERIF_SEED', '0') or 0),
        'level': 'other',
        'coverage': {
            'explanation': explanation,
            'rule': rule_text,
            'obligations': len(real),
            'discharged': len([o for o in real if o['ok']]),
            'evaluations': max(1, len(real)),
            'distinct_nontrivial': len(nontriv),
            'samples': samples,
            'functions_analysed': len(ctx.functions),
            'call_sites': ctx.call_sites,
            'engine_states': ctx.states,
            'facts_key': ctx.facts.key,
            'known_findings_reported': [o['key'] for o in knownhits],
            'informational': [o['key'] + ' -- ' + o['detail'] for o in ctx.obs if o['info'] and not o['ok']][:40],
            'notes': ctx.notes[:60],
            'trusted_base': ctx.trusted,
            'exhaustive': True,
            'path_exploration': 'full (graph-cut shortcut disabled)' if os.environ.get('VERIF_EXHAUSTIVE') else 'graph-cut shortcut where sound, path-sensitive otherwise',
            'teeth': getattr(ctx, 'teeth', None),
        },
        'assumptions': ctx.assumptions,
        'wall_s': round(time.time() - ctx.t0, 3),
        'violations': len(viol),
    }
    os.makedirs(EVDIR, exist_ok=True)
    json.dump(ev, open(os.path.join(EVDIR, ctx.pid + '.json'), 'w'), indent=1)
    print('[%s] tier=%s obligations=%d discharged=%d known=%d violations=%d functions=%d wall=%.1fs' % (
        ctx.pid, ctx.tier, len(real), ev['coverage']['discharged'], len(knownhits), len(viol), len(ctx.functions), ev['wall_s']))
    return 1 if viol else 0
