"""E0 runner + fact loader.

ensure_facts() extracts MIR facts from /repo's *current working tree* with the
rustc_private driver (cargo +nightly check, RUSTC_WORKSPACE_WRAPPER) and caches them
under /verif/.cache/facts/<tree-key>.  The key is a hash of every file cargo can see
in the workspace members, so any edit to /repo produces a fresh extraction.
"""
import fcntl
import glob
import hashlib
import json
import os
import pickle
import shutil
import subprocess
import sys
import time

VERIF = os.path.dirname(os.path.dirname(os.path.abspath(__file__)))
REPO = os.environ.get('VERIF_REPO', '/repo')
CACHE = os.path.join(VERIF, '.cache')
TARGET = os.path.join(CACHE, 'target')
DRIVER = os.path.join(VERIF, 'driver', 'target', 'release', 'vdriver')
MEMBER_FP = ['c2pa-[0-9a-f]*', 'c2pa-c-ffi-*', 'c2pa_macros-*', 'c2patool-*', 'export_schema-*', 'make_test_images-*']
EXPECTED = ['c2pa.facts.jsonl', 'c2pa_c.facts.jsonl', 'c2patool.bin.facts.jsonl']
MEMBER_DIRS = ['sdk', 'c2pa_c_ffi', 'cli', 'macros', 'export_schema', 'make_test_images']


def tree_key():
    h = hashlib.sha256()
    for root in ['Cargo.toml', 'Cargo.lock'] + MEMBER_DIRS:
        p = os.path.join(REPO, root)
        if os.path.isfile(p):
            h.update(root.encode()); h.update(open(p, 'rb').read()); continue
        for dp, dn, fn in os.walk(p):
            dn[:] = sorted(d for d in dn if d not in ('target', 'fixtures', '.git', 'node_modules'))
            for f in sorted(fn):
                if f.endswith(('.rs', '.toml', '.json', '.pem', '.pub', '.md')) or f == 'Cargo.lock':
                    fp = os.path.join(dp, f)
                    try:
                        st = os.stat(fp)
                    except OSError:
                        continue
                    if st.st_size > 4_000_000:
                        h.update(('%s:%d' % (fp, st.st_size)).encode()); continue
                    h.update(os.path.relpath(fp, REPO).encode())
                    h.update(open(fp, 'rb').read())
    # the driver itself is part of the key
    try:
        h.update(open(os.path.join(VERIF, 'driver', 'src', 'main.rs'), 'rb').read())
    except OSError:
        pass
    return h.hexdigest()[:20]


def sysroot_lib():
    out = subprocess.run(['rustc', '+nightly', '--print', 'sysroot'], capture_output=True, text=True, check=True).stdout.strip()
    return os.path.join(out, 'lib')


def ensure_driver():
    if not os.path.exists(DRIVER) or os.path.getmtime(DRIVER) < os.path.getmtime(os.path.join(VERIF, 'driver', 'src', 'main.rs')):
        env = dict(os.environ, CARGO_NET_OFFLINE='true')
        r = subprocess.run(['cargo', '+nightly', 'build', '--release', '--offline'], cwd=os.path.join(VERIF, 'driver'), env=env, capture_output=True, text=True)
        if r.returncode != 0:
            sys.stderr.write(r.stderr[-4000:])
            raise RuntimeError('driver build failed')


def ensure_facts(verbose=True):
    """returns (facts_dir, key, info)"""
    os.makedirs(os.path.join(CACHE, 'facts'), exist_ok=True)
    key = tree_key()
    fdir = os.path.join(CACHE, 'facts', key)
    if os.path.exists(os.path.join(fdir, 'DONE')):
        return fdir, key, {'cached': True}
    lockf = open(os.path.join(CACHE, 'extract.lock'), 'w')
    fcntl.flock(lockf, fcntl.LOCK_EX)
    try:
        if os.path.exists(os.path.join(fdir, 'DONE')):
            return fdir, key, {'cached': True}
        ensure_driver()
        t0 = time.time()
        tmp = fdir + '.tmp'
        shutil.rmtree(tmp, ignore_errors=True)
        os.makedirs(tmp)
        fpd = os.path.join(TARGET, 'debug', '.fingerprint')
        for pat in MEMBER_FP:
            for d in glob.glob(os.path.join(fpd, pat)):
                shutil.rmtree(d, ignore_errors=True)
        env = dict(os.environ)
        env.update({
            'CARGO_NET_OFFLINE': 'true',
            'LD_LIBRARY_PATH': sysroot_lib() + ':' + env.get('LD_LIBRARY_PATH', ''),
            'RUSTFLAGS': '-Zmir-opt-level=0 -Awarnings',
            'RUSTC_WORKSPACE_WRAPPER': DRIVER,
            'CARGO_TARGET_DIR': TARGET,
            'VDRIVER_OUT': tmp,
        })
        env.pop('RUSTC_WRAPPER', None)
        r = subprocess.run(['cargo', '+nightly', 'check', '--offline', '--workspace', '--lib', '--bins'], cwd=REPO, env=env, capture_output=True, text=True)
        log = r.stderr
        open(os.path.join(tmp, 'cargo.log'), 'w').write(log)
        if r.returncode != 0:
            sys.stderr.write(log[-6000:])
            raise RuntimeError('cargo check of /repo failed (the tree does not build); no verdict possible')
        for e in EXPECTED:
            p = os.path.join(tmp, e)
            if not os.path.exists(p) or os.path.getmtime(p) < t0 - 1:
                sys.stderr.write(log[-3000:])
                raise RuntimeError('fact file %s was not produced by this run (driver skipped?)' % e)
        open(os.path.join(tmp, 'DONE'), 'w').write(json.dumps({'key': key, 'wall_s': time.time() - t0}))
        shutil.rmtree(fdir, ignore_errors=True)
        os.rename(tmp, fdir)
        # prune old fact dirs (keep the 6 most recent)
        ds = sorted(glob.glob(os.path.join(CACHE, 'facts', '*')), key=os.path.getmtime, reverse=True)
        for d in ds[6:]:
            shutil.rmtree(d, ignore_errors=True)
        if verbose:
            sys.stderr.write('[facts] extracted %s in %.1fs\n' % (key, time.time() - t0))
        return fdir, key, {'cached': False, 'wall_s': time.time() - t0}
    finally:
        fcntl.flock(lockf, fcntl.LOCK_UN)
        lockf.close()


class Facts:
    """Lazy per-crate fact store."""

    def __init__(self, fdir, key):
        self.dir = fdir; self.key = key
        self._crates = {}

    def crate(self, name):
        if name in self._crates:
            return self._crates[name]
        src = os.path.join(self.dir, name + '.facts.jsonl')
        pk = src + '.pickle'
        if os.path.exists(pk) and os.path.getmtime(pk) >= os.path.getmtime(src):
            try:
                c = pickle.load(open(pk, 'rb'))
                self._crates[name] = c
                return c
            except Exception:
                pass
        c = {'bodies': {}, 'adts': {}, 'statics': {}, 'impls': [], 'promoted': []}
        for line in open(src):
            d = json.loads(line)
            r = d.pop('rec')
            if r == 'body':
                c['bodies'][d['f']] = d
            elif r == 'adt':
                c['adts'][d['name']] = d
            elif r == 'static':
                c['statics'][d['name']] = d
            elif r == 'impl':
                c['impls'].append(d)
            elif r == 'promoted':
                c['promoted'].append(d)
        tmp = pk + '.%d.tmp' % os.getpid()
        pickle.dump(c, open(tmp, 'wb'), protocol=pickle.HIGHEST_PROTOCOL)
        os.replace(tmp, pk)
        self._crates[name] = c
        return c

    def bodies(self, name='c2pa'):
        return self.crate(name)['bodies']


def load():
    dev = os.environ.get('VERIF_DEV_FACTS')   # development only: analyse an already extracted fact set (never used by registered commands)
    if dev:
        f = Facts(dev, os.path.basename(dev))
        f.info = {'cached': True, 'dev': True}
        return f
    fdir, key, info = ensure_facts()
    f = Facts(fdir, key)
    f.info = info
    return f


if __name__ == '__main__':
    t = time.time()
    f = load()
    print(f.dir, f.info, '%.1fs' % (time.time() - t))
    for n in ['c2pa', 'c2pa_c', 'c2patool.bin']:
        c = f.crate(n)
        print(n, len(c['bodies']), 'bodies', len(c['adts']), 'adts', len(c['statics']), 'statics', len(c['impls']), 'impls')
    print('%.1fs' % (time.time() - t))
