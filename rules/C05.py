"""C05 Signer trust decisions follow the configured trust policy."""
import re
from lib import CallGuard, LocalGuard, loc, classify_ret, Engine
from terms import Terms, ret_hits, fact_literals
import logs
import oblig
from oblig import TermGuard

EXPLANATION = ("All-paths MIR rules: CertificateTrustPolicy::check_certificate_trust returns EndEntity only when the allow-list contains the certificate hash, NoCheck "
               "only in passthrough mode, anything else from the backend; the OpenSSL backend returns System only after verify_cert succeeded on a store fed from "
               "trust_anchor_ders(), User only when trust_anchors_only() is false and verify_cert succeeded on a store fed from user_trust_anchor_ders(); every store "
               "gets X509_STRICT and the shared verify parameters (signing time / PARTIAL_CHAIN) before build(); NO_CHECK_TIME only without a signing time; empty anchor "
               "lists fail; Verifier::verify_trust logs signingCredential.trusted only on the Ok edge, untrusted as Failure on Err, and neither when trust checking is "
               "disabled; passthrough policies are constructed only where trust verification is off; user anchors are loaded with add_user_trust_anchors. Chain building "
               "itself is delegated to OpenSSL and is not decided.")
RULE = "obligation = (function, return/log/call site, guard) ; return classes enumerated by full path exploration"

OSSL = 'crypto::cose::certificate_trust::openssl::check_certificate_trust'
CTP = 'crypto::cose::certificate_trust_policy::CertificateTrustPolicy::check_certificate_trust'
INIT_TRUE = re.compile(r'^try\(X509StoreContextRef::init\[.*verify_cert.*\]\(.*\)\)\.as Continue#0\.0=1$')
# functions that may construct a pass-through (no trust check) policy, one line of reason each
PASSTHROUGH_ALLOWED = {
    'crypto::cose::sign1::signing_time_from_sign1': 'extracts the signing time only; no trust verdict is derived',
    'crypto::time_stamp::http_request::default_rfc3161_request': 'structural check of the TSA reply at signing time; trust is evaluated when the manifest is read',
    'assertions::timestamp::TimeStamp::send_timestamp_token_request': 'structural check of the TSA reply at signing time',
    "<identity::claim_aggregation::ica_signature_verifier::IcaSignatureVerifier<'_> as identity::identity_assertion::signature_verifier::SignatureVerifier>::check_signature": 'ICA credential: COSE structure only, issuer trust is evaluated separately (cawg.ica.*)',
}


def run(ctx):
    prog = ctx.prog(('c2pa',))
    consts = logs.const_strings(prog)
    T = Terms(prog)
    # ---- D1 policy front
    if ctx.require(prog.has(CTP), CTP):
        fn = prog.fn(CTP)
        ctx.analysed(CTP, len(list(fn.calls())))
        eng, hits = ret_hits(fn)
        ctx.states += eng.states
        for cls, facts, env, key, bi in hits:
            v = env.get(0)
            L = fact_literals(T, fn, facts)
            vt = T.atom_term(fn, v) if v else '?'
            if cls == 'Ok':
                if 'EndEntity' in vt:
                    ok = any(re.match(r'^(HashSet|BTreeSet|Vec).*::contains\(self\.end_entity_cert_set,', l) or ('contains(' in l and 'end_entity_cert_set' in l and not l.startswith('!')) for l in L)
                    ctx.ob('C05-D1', CTP, 'return Ok(EndEntity)', 'end_entity_cert_set.contains(hash(cert)) = true', ok, detail=str(sorted(L)))
                    cterm = [l for l in L if 'end_entity_cert_set' in l]
                    ctx.ob('C05-D1', CTP, 'allow-list lookup key', 'hash of the end-entity certificate argument', any('end_entity_cert_der' in l for l in cterm), detail=str(cterm))
                elif 'NoCheck' in vt:
                    ok = any(re.fullmatch(r'self\.passthrough=1', l) for l in L)
                    ctx.ob('C05-D1', CTP, 'return Ok(NoCheck)', 'self.passthrough = true', ok, detail=str(sorted(L)))
                else:
                    ctx.ob('C05-D1', CTP, 'return ' + vt[:40], 'EndEntity | NoCheck literal or backend result', False, detail='unexpected literal Ok value ' + vt)
            elif cls.startswith('call:'):
                ok = cls.endswith('certificate_trust::openssl::check_certificate_trust') or cls.endswith('certificate_trust::rust_native::check_certificate_trust')
                nopass = any(re.fullmatch(r'self\.passthrough=0', l) for l in L)
                ctx.ob('C05-D1', CTP, 'return backend result', 'backend is certificate_trust::{openssl,rust_native}', ok, detail=cls)
                ctx.ob('C05-D1', CTP, 'return backend result', 'not in passthrough mode', nopass, detail=str(sorted(L)))
                t = fn.B[v[1]]['t']
                at = [T.op_term(fn, a) for a in t['args']]
                ctx.ob('C05-D1', CTP, 'backend call arguments', '(self, chain_der, end_entity_cert_der, signing_time_epoch)', at == ['self', 'chain_der', 'end_entity_cert_der', 'signing_time_epoch'], detail=str(at))
    # ---- D2 openssl backend
    if ctx.require(prog.has(OSSL), OSSL):
        fn = prog.fn(OSSL)
        ctx.analysed(OSSL, len(list(fn.calls())))
        eng, hits = ret_hits(fn)
        ctx.states += eng.states
        inits = [bi for bi, t in fn.calls() if t['fd'].endswith('X509StoreContextRef::init')]
        builds = [bi for bi, t in fn.calls() if t['fd'].endswith('X509StoreBuilder::build')]
        news = [bi for bi, t in fn.calls() if t['fd'].endswith('X509StoreBuilder::new')]
        ctx.ob('C05-D2', OSSL, 'X509 stores', 'two builders, two builds, two verifications', len(inits) == 2 and len(builds) == 2 and len(news) == 2, detail='%d/%d/%d' % (len(news), len(builds), len(inits)))
        nsys = nusr = 0
        for cls, facts, env, key, bi in hits:
            v = env.get(0)
            if cls != 'Ok':
                continue
            vt = T.atom_term(fn, v)
            L = fact_literals(T, fn, facts)
            trues = [l for l in L if INIT_TRUE.match(l) and not l.startswith('!')]
            path = eng.path_of(key)
            if 'System' in vt:
                nsys += 1
                ctx.ob('C05-D2', OSSL, 'return Ok(System)', 'verify_cert = true on the system-anchor store', len(trues) >= 1, detail=str(sorted(L))[:300]) if nsys == 1 or len(trues) < 1 else None
            elif 'User' in vt:
                nusr += 1
                only = any(l == '!CertificateTrustPolicy::trust_anchors_only(ctp)' for l in L)
                if nusr == 1 or not only or len(trues) < 1:
                    ctx.ob('C05-D2', OSSL, 'return Ok(User)', 'ctp.trust_anchors_only() = false', only, detail=str(sorted(L))[:300])
                    ctx.ob('C05-D2', OSSL, 'return Ok(User)', 'verify_cert = true on the user-anchor store', len(trues) >= 1 and inits and path.count(inits[-1]) >= 1, detail=str(trues))
            else:
                ctx.ob('C05-D2', OSSL, 'return Ok(%s)' % vt[:30], 'System | User', False)
        ctx.ob('C05-D2', OSSL, 'return classes', 'Ok(System) and Ok(User) both reachable', nsys > 0 and nusr > 0, detail='%d/%d' % (nsys, nusr))
        # per store: new -> set_flags(X509_STRICT), set_param(verify_param) before build; add_cert source
        for k, (nb, bb) in enumerate(zip(sorted(news), sorted(builds))):
            which = 'system' if k == 0 else 'user'
            recv = T.call_term(fn, nb)
            for need, pat in (('set_flags(X509_STRICT)', r'X509StoreBuilderRef::set_flags$'), ('set_param(verify_param)', r'X509StoreBuilderRef::set_param$')):
                blocks = set()
                for bi, t in fn.calls():
                    if re.search(pat, t['fd']):
                        if any(o == ('call', nb) for o in fn.origins(t['args'][0])) or any(o[0] == 'field' and o[1] == ('call', nb) for o in fn.origins(t['args'][0])):
                            blocks.add(bi)
                start = fn.B[nb]['t']['t']
                reach = fn.reachable(start, avoid=blocks) if start is not None else set()
                ok = bool(blocks) and bb not in reach
                ctx.ob('C05-D2', OSSL, '%s-anchor store: build()' % which, need + ' on every path from new() to build()', ok,
                       detail='' if ok else 'the %s-anchor X509 store can be built without %s (signing time / PARTIAL_CHAIN / strict flags lost)' % (which, need), site=loc(fn.B[bb]['t']['span']))
            src = set()
            for bi, t in fn.calls():
                if t['fd'].endswith('X509StoreBuilderRef::add_cert') and (any(o == ('call', nb) or (o[0] == 'field' and o[1] == ('call', nb)) for o in fn.origins(t['args'][0]))):
                    term = T.op_term(fn, t['args'][1])
                    src.add('user_trust_anchor_ders' if 'user_trust_anchor_ders' in term else ('trust_anchor_ders' if 'trust_anchor_ders' in term else term[:60]))
            want = {'trust_anchor_ders'} if k == 0 else {'user_trust_anchor_ders'}
            ctx.ob('C05-D2', OSSL, '%s-anchor store: add_cert sources' % which, str(sorted(want)), src == want, detail='sources: %s' % sorted(src))
        # verify param flags
        flags = {}
        for bi, t in fn.calls():
            if t['fd'].endswith('X509VerifyParamRef::set_flags') or t['fd'].endswith('X509StoreBuilderRef::set_flags'):
                for a in t['args'][1:]:
                    it = a.get('item') or ''
                    for o in (fn.origins(a) if 'l' in a else []):
                        if o[0] == 'item':
                            it = o[1]
                    flags.setdefault(it.split('::')[-1], []).append(bi)
        for need in ('X509_STRICT', 'PARTIAL_CHAIN', 'NO_CHECK_TIME'):
            ctx.ob('C05-D2', OSSL, 'verify flag ' + need, 'set', need in flags, detail=str(sorted(flags)))
        if 'NO_CHECK_TIME' in flags:
            blk = set(flags['NO_CHECK_TIME'])
            oblig.effect_requires(ctx, 'C05-D2', fn, 'set_flags(NO_CHECK_TIME)', lambda bi, b: bi in blk, [LocalGuard('signing_time_epoch', 'none', name='signing_time_epoch = None')])
        st = [bi for bi, t in fn.calls() if t['fd'].endswith('X509VerifyParamRef::set_time')]
        ctx.ob('C05-D2', OSSL, 'set_time(signing time)', 'present', bool(st))
        # empty anchors => Err
        emp = [1 for cls, facts, env, key, bi in hits if cls == 'Err' and sum(1 for l in fact_literals(T, fn, facts) if re.match(r'^eq\(Iterator::count\(CertificateTrustPolicy::(user_)?trust_anchor_ders\(ctp\)\),0\)$', l)) == 2]
        ctx.ob('C05-D2', OSSL, 'both anchor lists empty', 'Err(CertificateNotTrusted)', bool(emp))
    # ---- D3 verify_trust
    for name in [n for n in prog.fns() if re.match(r"^crypto::cose::verifier::Verifier::<'_>::verify_trust(_async::\{closure#0\})?$", n)]:
        fn = prog.fn(name)
        ctx.analysed(name, len(list(fn.calls())))
        sites = logs.log_sites(prog, fn, consts)
        tr = set(s['bi'] for s in sites if ('str', 'signingCredential.trusted') in s['codes'] and s['kind'] == 'success')
        un = set(s['bi'] for s in sites if ('str', 'signingCredential.untrusted') in s['codes'] and s['kind'] == 'failure')
        ctx.ob('C05-D3', name, 'signingCredential.trusted / untrusted logs', 'one success site, one Failure site', len(tr) >= 1 and len(un) >= 1, detail='%d/%d' % (len(tr), len(un)))
        g_ok = CallGuard(r'CertificateTrustPolicy::check_certificate_trust(_async)?$', 'ok', name='check_certificate_trust = Ok')
        g_err = CallGuard(r'CertificateTrustPolicy::check_certificate_trust(_async)?$', 'err', name='check_certificate_trust = Err')
        if '_async' in name:
            g_ok = TermGuard(T, r'check_certificate_trust_async', 'ok', name='check_certificate_trust_async = Ok', call_pat=r'Future::poll$|check_certificate_trust_async$')
            g_err = TermGuard(T, r'check_certificate_trust_async', 'err', name='check_certificate_trust_async = Err', call_pat=r'Future::poll$|check_certificate_trust_async$')
        oblig.effect_requires(ctx, 'C05-D3', fn, 'success log signingCredential.trusted', lambda bi, b, _s=tr: bi in _s, [g_ok])
        oblig.effect_requires(ctx, 'C05-D3', fn, 'Failure log signingCredential.untrusted', lambda bi, b, _s=un: bi in _s, [g_err])
        # Err edge => failure log
        if '_async' not in name:
            oblig.failing_edge_obligation(ctx, 'C05-D3', fn, g_err, lambda bi, b, _s=un: bi in _s, 'signingCredential.untrusted Failure log')
        # disabled variants: no verdict logged
        eng = Engine(fn)
        def mon(bi, b, env, facts, ms):
            return ms, ([('log', bi)] if bi in tr or bi in un else [])
        hits = eng.explore(mon)
        ctx.states += eng.states
        bad = None
        for (lab, lb), bi, facts, env, key in hits:
            L = fact_literals(T, fn, facts)
            if not any(re.search(r'discr\(.*self.*\)=0$|discr\(self\)=0', l) for l in L):
                # variant index of VerifyTrustPolicy is taken from the ADT
                pass
        vadt = prog.adts.get('crypto::cose::verifier::Verifier')
        if ctx.require(vadt is not None, 'Verifier (adt)'):
            names = [v['name'] for v in vadt['variants']]
            vtp = names.index('VerifyTrustPolicy')
            for (lab, lb), bi, facts, env, key in hits:
                L = fact_literals(T, fn, facts)
                ok = any(re.search(r'^discr\((\*)?self\)=%d$' % vtp, l) or re.search(r'^discr\(self.*\)=%d$' % vtp, l) for l in L)
                if not ok:
                    bad = sorted(L)
            ctx.ob('C05-D3', name, 'trust verdict logs', 'only for Verifier::VerifyTrustPolicy (no verdict when disabled)', bad is None, detail='' if bad is None else str(bad)[:300])
    # ---- D4 who-may-construct passthrough / non-trust verifiers
    n = 0
    for name in prog.fns():
        fn = prog.fn(name)
        for bi, t in fn.calls():
            if t['fd'].endswith('CertificateTrustPolicy::passthrough'):
                n += 1
                ctx.analysed(name, 1)
                base_name = re.sub(r'(_async)?(::\{closure#\d+\})*$', '', name)
                base_name = base_name[:-6] if base_name.endswith('_async') else base_name
                reason = PASSTHROUGH_ALLOWED.get(base_name)
                if name.startswith('crypto::cose::certificate_trust_policy::'):
                    reason = 'definition'
                ctx.ob('C05-D4', name, 'CertificateTrustPolicy::passthrough()', 'constructor is in the who-may-call table', reason is not None,
                       detail=('tabled: ' + reason) if reason else 'a pass-through (no trust check) policy is constructed at %s by a function outside the table' % loc(t['span']), site=loc(t['span']))
    ctx.floor('CertificateTrustPolicy::passthrough() construction sites', n, 1, rule='C05-D4')
    # ---- D5 settings loading: user anchors go through add_user_trust_anchors; trust_anchors_only from the setting
    sfc = [x for x in prog.fns() if re.match(r'^store::Store::(from_context|new_with_context|with_context|from_settings|ctp_from_settings)', x) or re.match(r'^context::Context::.*trust', x) or 'load_trust' in x]
    found_user = found_sys = found_only = False
    for name in prog.fns():
        fn = prog.fn(name)
        for bi, t in fn.calls():
            if t['fd'].endswith('CertificateTrustPolicy::add_user_trust_anchors'):
                term = ' '.join(T.op_term(fn, a) for a in t['args'][1:])
                if 'user_anchors' in term:
                    found_user = True
                ctx.ob('C05-D5', name, 'add_user_trust_anchors(x)', 'x derives from trust.user_anchors', 'user_anchors' in term or name.startswith('crypto::') or name == 'store::Store::add_user_trust_anchors', detail=term[:120], site=loc(t['span']))
            if t['fd'].endswith('CertificateTrustPolicy::add_trust_anchors'):
                term = ' '.join(T.op_term(fn, a) for a in t['args'][1:])
                if 'trust_anchors' in term and 'user_anchors' not in term:
                    found_sys = True
                ctx.ob('C05-D5', name, 'add_trust_anchors(x)', 'x does not derive from trust.user_anchors', 'user_anchors' not in term, detail=term[:120], site=loc(t['span']))
            if t['fd'].endswith('CertificateTrustPolicy::set_trust_anchors_only'):
                term = ' '.join(T.op_term(fn, a) for a in t['args'][1:])
                found_only = True
                ctx.ob('C05-D5', name, 'set_trust_anchors_only(x)', 'x derives from a trust_anchors_only setting', 'anchors_only' in term, detail=term[:120], site=loc(t['span']))
    ctx.ob('C05-D5', '-', 'settings -> policy wiring', 'user anchors and system anchors both loaded', found_user and found_sys, detail='user=%s sys=%s only=%s' % (found_user, found_sys, found_only))
