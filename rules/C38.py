"""C38 Validation is deterministic and repeatable (hidden-state clauses)."""
import re
from lib import loc
import C24

EXPLANATION = ("Call-graph reachability over the resolved workspace graph: every call of a nondeterminism source (system clocks, RNGs, UUIDs, "
               "process/thread ids) in non-test SDK code is enumerated and must be in a frozen table; those reachable from the read entry points must be "
               "tabled as inherent (validation time stamp, certificate validity 'now', credential validity) ; plus the global-state inventory of C24 (no "
               "writable global besides the tabled ones) and a check that Store's per-instance cache is a field, not a static. Decides absence of hidden "
               "inputs, not equality of reports.")
RULE = "obligation = one nondeterminism-source call site (function, callee) / one static item"

SOURCES = re.compile(r'SystemTime::now$|Utc::now$|Local::now$|Instant::now$|^rand::|::rand::|getrandom|::new_v4$|thread::current$|process::id$|OffsetDateTime::now|thread_rng|OsRng|^crypto::internal::time::utc_now$')
READ_ENTRIES = [r'^reader::Reader::(with_stream|with_file|with_manifest_data_and_stream|with_fragment|with_fragmented_files|from_fragment|post_validate)(_async)?$',
                r'^ingredient::Ingredient::from_stream', r'^store::Store::from_stream(_async)?$', r'^store::Store::from_jumbf']
# exact function -> (may be on a read path?, reason).  Anything else is reported.
TABLE = {
    'validation_results::ValidationResults::from_store': (True, 'validation time stamp (excluded by the statement)'),
    'crypto::cose::certificate_profile::check_certificate_profile': (True, 'certificate validity evaluated "now" when no time-stamp (inherent)'),
    'crypto::internal::time::utc_now': (True, 'the repo\'s clock wrapper; its callers are the rows below'),
    'crypto::ocsp::OcspResponse::from_der_checked': (True, 'OCSP response validity window against now (inherent)'),
    '<crypto::ocsp::OcspResponse as std::default::Default>::default': (True, 'placeholder next_update of an empty OCSP response (not reported)'),
    "identity::claim_aggregation::ica_signature_verifier::IcaSignatureVerifier::<'a>::check_valid_from": (True, 'ICA credential validity window (time-dependent by nature)'),
    "identity::claim_aggregation::ica_signature_verifier::IcaSignatureVerifier::<'a>::check_valid_until": (True, 'ICA credential validity window (time-dependent by nature)'),
    'manifest::default_instance_id': (True, 'serde default for a missing instance_id when deserialising a Manifest (Manifest::from_store fills it from the claim)'),
    'ingredient::default_instance_id': (True, 'serde default for a missing instance_id of an Ingredient'),
    'assertions::assertion_metadata::AssertionMetadata::new': (False, 'authoring side: metadata dateTime'),
    "crjson::CrJsonExporter::<'a>::build_validation_results_per_manifest::{closure#0}": (False, 'crJSON export time stamp (presentation)'),
    'crjson::build_manifest_validation_results::{closure#0}': (False, 'crJSON export time stamp (presentation)'),
    'crypto::time_stamp::provider::default_rfc3161_message': (False, 'signing side: TSA nonce'),
    'utils::ephemeral_cert::fill_random': (False, 'signing side: ephemeral certificate'),
    'utils::ephemeral_cert::default_validity': (False, 'signing side: ephemeral certificate'),
    'utils::time_it::TimeIt::new': (True, 'diagnostics timer (log output only)'),
    'builder::Builder::data_hashed_placeholder': (False, 'authoring side: instance id'),
    'builder::Builder::set_asset_from_dest': (False, 'authoring side: instance id'),
    'builder::Builder::sign_box_hashed_embeddable': (False, 'authoring side: instance id'),
    'builder::Builder::sign_box_hashed_embeddable_async::{closure#0}': (False, 'authoring side: instance id'),
    'builder::default_instance_id': (False, 'authoring side: instance id'),
    'claim::Claim::new': (False, 'authoring side: manifest label urn'),
}


def run(ctx):
    prog = ctx.prog(('c2pa',))
    entries = [n for n in prog.fns() if any(re.search(p, n) for p in READ_ENTRIES) and '{closure' not in n]
    ctx.floor('read entry points', len(entries), 8, rule='C38-D2')
    reach, parent = prog.reach_from(entries)
    n = 0
    onread = 0
    for name in prog.fns():
        fn = prog.fn(name)
        for bi, t in fn.calls():
            c = t.get('r') or t['fd']
            if not SOURCES.search(t['fd']) and not SOURCES.search(c):
                continue
            if 'RandomState' in c or name == 'crypto::internal::time::utc_now' and False:
                continue
            n += 1
            row = TABLE.get(name)
            rd = name in reach
            onread += 1 if rd else 0
            ctx.analysed(name, 1)
            if row is None:
                ok, det = False, 'untabled nondeterminism source at %s' % loc(t['span'])
            elif rd and not row[0]:
                ok, det = False, 'source tabled as "%s" is now reachable from a read entry point: %s' % (row[1], ' -> '.join(x.split('::')[-1] for x in prog.path_to(parent, name)[:8]))
            else:
                ok, det = True, row[1]
            ctx.ob('C38-D2', name, 'calls ' + '::'.join(c.split('::')[-2:]), 'tabled nondeterminism source' + (' (on a read path)' if rd else ''), ok, detail=det, site=loc(t['span']))
    ctx.floor('nondeterminism source call sites', n, 12, rule='C38-D2')
    ctx.note('%d source call sites, %d in functions reachable from read entry points' % (n, onread))
    # D1: global state inventory (shared with C24-D1/D2)
    sub = type('Sub', (), {})()
    before = len(ctx.obs)
    C24.run(ctx)
    for o in ctx.obs[before:]:
        o['rule'] = o['rule'].replace('C24-', 'C38-D1/C24-')
        o['key'] = o['key'].replace('C24-', 'C38-D1/C24-', 1)
    # D3 caches: Store::manifest_box_hash_cache is a field
    sadt = prog.adts.get('store::Store')
    if ctx.require(sadt is not None, 'store::Store (adt)'):
        f = {x[0]: x[1] for x in sadt['variants'][0]['fields']}
        ctx.ob('C38-D3', 'store::Store', 'manifest_box_hash_cache', 'per-instance field', 'manifest_box_hash_cache' in f, detail=f.get('manifest_box_hash_cache', 'missing')[:100])
