"""C20 Redaction removes exactly the requested assertions and stays verifiable (obligation clauses)."""
import re
from lib import CallGuard, LocalGuard, loc, classify_ret
from terms import Terms, ret_hits, fact_literals
import logs
import oblig
import discipline

EXPLANATION = ("All-paths MIR rules: in Claim::verify_internal each disallowed-redaction test (self redaction, action redaction, hash-binding redaction) has its "
               "true edge reaching the matching Failure log; the 'skip the hash check because the assertion was redacted' shortcut is taken only when a redaction "
               "entry names THIS manifest, label and instance (truth condition of the matching closure) and a missing assertion otherwise logs assertion.missing as "
               "Failure; Claim::redact_assertion returns Ok only after the actions / c2pa.hash. prefix tests failed, the target manifest equals self, and an "
               "assertion-store / databox removal happened, otherwise Err; redactions recorded by add_ingredient_data come only from successful redact_assertion calls. "
               "Output bytes and exact redaction lists are not decided.")
RULE = "obligation = (function, guard edge | return, log/guard)"
VI = 'claim::Claim::verify_internal'
RA = 'claim::Claim::redact_assertion'


def run(ctx):
    prog = ctx.prog(('c2pa',))
    consts = logs.const_strings(prog)
    T = Terms(prog)
    if ctx.require(prog.has(VI), VI):
        fn = prog.fn(VI)
        ctx.analysed(VI, len(list(fn.calls())))
        sites = logs.log_sites(prog, fn, consts)
        table = [
            ('assertion.selfRedacted', lambda term: re.search(r'contains\(.*Claim::label\(claim\)', term), 'redaction URI contains this claim label'),
            ('assertion.action.redacted', lambda term: re.search(r'contains\(.*ACTIONS', term), 'redaction URI contains c2pa.actions'),
            ('assertion.dataHash.redacted', lambda term: re.search(r'Iterator::any\[.*contains.*\]\(.*HASH_LABELS', term), 'redaction URI contains a hash-binding label'),
        ]
        for code, tp, what in table:
            fl = set(s['bi'] for s in sites if ('str', code) in s['codes'] and s['kind'] == 'failure')
            ctx.ob('C20-D1', VI, 'Failure log ' + code, 'present', bool(fl))
            g = CallGuard(r'contains$|Iterator::any$', 'true', argpred=lambda f, bi, t, _tp=tp: bool(_tp(T.call_term(f, bi))), name=what + ' = true')
            oblig.failing_edge_obligation(ctx, 'C20-D1', fn, g, lambda bi, b, _f=fl: bi in _f, 'Failure log ' + code)
        # D4: the redaction shortcut
        found = False
        for bi, t in fn.calls():
            if t['fd'] == 'std::iter::Iterator::any' and 'redactions' in T.op_term(fn, t['args'][0]) and 'svi' in T.op_term(fn, t['args'][0]):
                clos = [fn.locals[a['l']].get('closure') for a in t['args'] if 'l' in a and fn.locals[a['l']].get('closure')]
                for c in clos:
                    s, dnf = T.truth_dnf(c)
                    found = True
                    ok = dnf is not None and len(dnf) > 0
                    for conj in dnf or []:
                        man = any(re.search(r'eq\(.*manifest_label_from_uri.*,.*Claim::label\(claim\)\)|eq\(.*r_manifest.*,.*Claim::label', l) and not l.startswith('!') for l in conj)
                        lab = any(re.search(r'eq\(.*assertion_label_from_link.*\.0,.*label', l) and not l.startswith('!') for l in conj)
                        ins = any(re.search(r'eq\(.*assertion_label_from_link.*\.1,.*instance', l) and not l.startswith('!') for l in conj)
                        ok = ok and man and lab and ins
                    ctx.ob('C20-D4', VI, 'skip hash check for a redacted assertion', 'a redaction entry matches this manifest label AND assertion label AND instance', ok,
                           detail='closure truth condition: ' + s[:400], site=loc(t['span']))
        ctx.ob('C20-D4', VI, 'redaction shortcut', 'found (svi.redactions.iter().any(..))', found)
        g_none = CallGuard(r'Claim::get_claim_assertion$', 'none', name='get_claim_assertion = None')
        miss = set(s['bi'] for s in sites if ('str', 'assertion.missing') in s['codes'] and s['kind'] == 'failure')
        oblig.failing_edge_obligation(ctx, 'C20-D4', fn, g_none, lambda bi, b, _m=miss: bi in _m, 'assertion.missing Failure log')
    # D2 redact_assertion
    if ctx.require(prog.has(RA), RA):
        fn = prog.fn(RA)
        ctx.analysed(RA, len(list(fn.calls())))
        eng, hits = ret_hits(fn)
        ctx.states += eng.states
        nok = 0
        for cls, facts, env, key, bi in hits:
            if cls != 'Ok':
                continue
            nok += 1
            L = fact_literals(T, fn, facts)
            path = eng.path_of(key)
            removed = any(fn.B[b]['t']['k'] == 'call' and re.search(r'Vec::<T, A>::remove$', fn.B[b]['t']['fd']) for b in path)
            act = any(l.startswith('!') and 'starts_with' in l and 'ACTIONS' in l for l in L)
            hsh = any(l.startswith('!') and 'starts_with' in l and 'c2pa.hash.' in l for l in L)
            man = any(re.search(r'^!(PartialEq::)?ne\(.*manifest_label_from_uri.*Claim::label\(self\)', l) or re.search(r'^(PartialEq::)?eq\(.*manifest_label_from_uri.*Claim::label\(self\)', l) or l.startswith('!ok(manifest_label_from_uri') for l in L)
            if nok <= 4 or not (removed and act and hsh and man):
                ctx.ob('C20-D2', RA, 'return Ok(())', 'assertion_store/data_boxes removal on the path', removed, detail=str(sorted(L))[:300])
                ctx.ob('C20-D2', RA, 'return Ok(())', 'label does not start with c2pa.actions', act, detail=str(sorted(L))[:300])
                ctx.ob('C20-D2', RA, 'return Ok(())', 'label does not start with c2pa.hash.', hsh, detail=str(sorted(L))[:300])
                ctx.ob('C20-D2', RA, 'return Ok(())', 'target manifest absent or equal to self.label()', man, detail=str(sorted(L))[:300])
        ctx.floor('Ok returns of redact_assertion', nok, 2, rule='C20-D2')
        nf = [1 for b in fn.B for dst, rv in b['s'] if rv['k'] == 'agg' and rv.get('variant') == 'AssertionRedactionNotFound']
        ctx.ob('C20-D2', RA, 'no matching assertion', 'Err(AssertionRedactionNotFound) constructed', bool(nf))
    # D3 callers of redact_assertion propagate its error before recording the redaction
    n = 0
    for name in prog.fns():
        fn = prog.fn(name)
        for bi, t in fn.calls():
            if t['fd'] == RA:
                n += 1
                kinds = sorted(set(c[0] for c in discipline.consumers(fn, bi)))
                ctx.ob('C20-D3', name, 'result of redact_assertion', 'propagated with ? (a failed redaction is never recorded)', kinds == ['propagate'], detail=str(kinds), site=loc(t['span']))
    ctx.floor('callers of redact_assertion', n, 1, rule='C20-D3')

    # D5 builder: every requested redaction must have been applied (else Err(AssertionRedactionNotFound))
    tc = 'builder::Builder::to_claim'
    if ctx.require(prog.has(tc), tc):
        fn = prog.fn(tc)
        ctx.analysed(tc, 0)
        g = CallGuard(r'contains$', 'false', argpred=lambda f, bi, t: 'Claim::redactions' in T.call_term(f, bi), name='applied.contains(requested redaction) = false')
        n = oblig.failing_edge_obligation(ctx, 'C20-D5', fn, g, lambda bi, b: False, 'Err(AssertionRedactionNotFound)')

    # ---- D6 merging an ingredient whose manifest is already present in a differently redacted form: when only the CURRENT claim's copy is redacted,
    # the incoming (un-redacted) copy must be dropped, otherwise the redacted assertion data comes back.  Structural form: a push of the conflicting label
    # (onto the drop list) sits on the edges `claim redactions non-empty` and `incoming redactions empty`.
    ln = 'store::Store::load_ingredient_to_claim'
    if ctx.require(prog.has(ln), ln):
        fn = prog.fn(ln)
        calls = list(fn.calls())
        ctx.analysed(ln, len(calls))
        tests = []
        for bi, t in calls:
            if t['fd'].endswith('::is_empty') and 'redactions' in T.call_term(fn, bi):
                sw = fn.B[fn.B[bi]['t']['t']]['t'] if fn.B[bi]['t'].get('t') is not None else None
                cur = fn.B[bi]['t'].get('t')
                hops = 0
                while sw and sw['k'] != 'switch' and hops < 3:
                    cur = sw.get('t'); sw = fn.B[cur]['t'] if cur is not None else None; hops += 1
                if not sw or sw['k'] != 'switch':
                    continue
                neg = any(rv['k'] == 'un' and rv['op'] == 'Not' for dst, rv in fn.B[cur]['s'])
                zero = [x for v, x in sw['ts'] if v == 0]
                if not zero:
                    continue
                t_true, t_false = (sw['o'], zero[0]) if not neg else (zero[0], sw['o'])
                tests.append((bi, T.call_term(fn, bi), t_true, t_false))      # edges for is_empty = true / false
        pushes = [bi for bi, t in calls if re.search(r'Vec::<T, A>::push$|Vec::push$', t['fd']) and 'Iterator::next(' in T.call_term(fn, bi) and 'conflict' not in '']
        ok = False
        for pb in pushes:
            ne = [x for x in tests if fn.dominates(x[3], pb)]       # some redaction list non-empty
            em = [x for x in tests if fn.dominates(x[2], pb)]       # another redaction list empty
            if any(a[1] != b[1] for a in ne for b in em):
                ok = True
        ctx.ob('C20-D6', ln, 'conflict where only the current claim redacts', 'the incoming copy is dropped (label pushed on the edges: one redaction list non-empty, the other empty)', ok,
               detail='%d redaction emptiness tests, %d candidate pushes' % (len(tests), len(pushes)), site=loc(fn.d['span']))

