"""C04 Validation state is derived soundly from validation codes."""
import re
from lib import Engine, loc
from terms import Terms, fact_literals, ret_hits, literal_alternatives, expand_dnf

EXPLANATION = ("All-paths structural rule over unoptimised MIR of ValidationResults::validation_state, its closures, "
               "is_tolerated_manifest_failure_code and Reader::validation_state: every path to `return Valid`/`return Trusted` "
               "is enumerated in the product (block x guard outcomes) graph and must carry the required guard outcomes; "
               "the tolerance predicate is constant-folded over every validation-code constant of the crate.")
RULE = ("obligation = (function, return variant, required guard); a guard is a canonical term of a call site "
        "(callee, receiver chain, closure truth condition); non-trivial = at least one branch between entry and the return")

VS = 'validation_results::ValidationResults::validation_state'
TOL = 'validation_results::is_tolerated_manifest_failure_code'
RVS = 'reader::Reader::validation_state'

ACTIVE = r'self\.active_manifest(\.Some\.0)?'


def lit_any_success(code):
    return re.compile(r'^Iterator::any\[PartialEq::eq\(ValidationStatus::code\(\w+\),%s\)\]\(StatusCodes::success\(%s\)\)$' % (code, ACTIVE))


TOL_ALL = r'Iterator::all\[is_tolerated_manifest_failure_code\(ValidationStatus::code\(\w+\)\)\]\(StatusCodes::failure\(%s\)\)'
EMPTY = r'Vec::is_empty\(StatusCodes::failure\(%s\)\)'


def has(lits, rx):
    return any(rx.search(l) and not l.startswith('!') for l in lits)


def closure_of_call(fn, bi):
    t = fn.B[bi]['t']
    for a in t['args']:
        if 'l' in a and fn.locals[a['l']].get('closure'):
            return fn.locals[a['l']]['closure']
    return None


def deltas_guard(prog, T, fn, facts, strict):
    """find the `ingredient_deltas ... all(all(cond))` atom that is true in facts and check cond.
    strict=False: every disjunct of cond has is_empty(failure(X)) or all[is_tolerated](failure(X));
    strict=True: every disjunct has is_empty(failure(X))."""
    found = []
    for a, v in facts.items():
        if a[0] != 'call' or v != 1:
            continue
        t = fn.B[a[1]]['t']
        if t['fd'] != 'std::iter::Iterator::all':
            continue
        recv = T.op_term(fn, t['args'][0])
        if 'ingredient_deltas' not in recv:
            continue
        c1 = closure_of_call(fn, a[1])
        if not c1 or not prog.has(c1):
            continue
        f1 = prog.fn(c1)
        # outer closure must be `deltas.iter().all(inner)` as its whole value
        s1, dnf1 = T.truth_dnf(c1)
        inner = None
        for bi, tt in f1.calls():
            if tt['fd'] == 'std::iter::Iterator::all':
                inner = closure_of_call(f1, bi)
        if dnf1 is None or len(dnf1) != 1 or len(dnf1[0]) != 1 or inner is None:
            continue
        s2, dnf2 = T.truth_dnf(inner)
        dnf2 = expand_dnf(T, dnf2)
        if not dnf2:
            continue
        X = r'IngredientDeltaValidationResult::validation_deltas\(\w+\)'
        ok = True
        for conj in dnf2:
            e = any(re.fullmatch(EMPTY % X, l) for l in conj)
            tl = any(re.fullmatch(TOL_ALL % X, l) for l in conj)
            if strict:
                ok = ok and e
            else:
                ok = ok and (e or tl)
        if ok:
            found.append(a[1])
    return found


def run(ctx):
    prog = ctx.prog(('c2pa',))
    T = Terms(prog)
    if not ctx.require(prog.has(VS), VS) or not ctx.require(prog.has(TOL), TOL):
        return
    fn = prog.fn(VS)
    ctx.analysed(VS, len(list(fn.calls())))
    eng, hits = ret_hits(fn)
    ctx.states += eng.states
    classes = {}
    for cls, facts, env, key, bi in hits:
        classes.setdefault(cls, []).append((facts, key))
    # D3: only three outcomes and all present
    for want in ('Valid', 'Trusted', 'Invalid'):
        ctx.ob('C04-D3', VS, 'return ' + want, 'reachable', want in classes, detail='return variant must exist')
    for cls in classes:
        if cls not in ('Valid', 'Trusted', 'Invalid'):
            ctx.ob('C04-D3', VS, 'return ' + cls, 'is Valid|Trusted|Invalid', False, detail='unrecognised return value shape %s' % cls)
    reqs = {
        'claimSignature.validated on active manifest success': lambda L, f: has(L, lit_any_success('CLAIM_SIGNATURE_VALIDATED')),
        'claimSignature.insideValidity on active manifest success': lambda L, f: has(L, lit_any_success('CLAIM_SIGNATURE_INSIDE_VALIDITY')),
        'active failures empty or all tolerated': lambda L, f: has(L, re.compile('^' + EMPTY % ACTIVE + '$')) or has(L, re.compile('^' + TOL_ALL % ACTIVE + '$')),
        'every ingredient delta: failures empty or all tolerated': lambda L, f: bool(deltas_guard(prog, T, fn, f, False)),
    }
    treqs = dict(reqs)
    treqs.update({
        'signingCredential.trusted on active manifest success': lambda L, f: has(L, lit_any_success('SIGNING_CREDENTIAL_TRUSTED')),
        'active failures empty': lambda L, f: has(L, re.compile('^' + EMPTY % ACTIVE + '$')),
        'every ingredient delta: failures empty': lambda L, f: bool(deltas_guard(prog, T, fn, f, True)),
    })
    for cls, R in (('Valid', reqs), ('Trusted', treqs)):
        for name, pred in R.items():
            bad = None
            for facts, key in classes.get(cls, []):
                # a bool helper of the crate that is true on the path is replaced by its condition; the requirement must hold for every way it can be true
                alts = literal_alternatives(T, fn, facts)
                failing = [L for L in alts if not pred(L, facts)]
                if failing:
                    bad = (facts, key, failing[0])
                    break
            wit = None
            if bad:
                path = eng.path_of(bad[1])
                wit = {'blocks': path[:60], 'facts': sorted(bad[2])[:12]}
            ctx.ob('C04-D1' if cls == 'Valid' else 'C04-D2', VS, 'return ' + cls, name, bad is None,
                   detail='' if bad is None else 'a path returns %s without guard "%s"' % (cls, name),
                   site=loc(fn.d['span']), witness=wit)
    # monotonicity: a Trusted path carries no negated failure guard; a Valid path may negate only guards that
    # Trusted requires positively (those merely withhold the upgrade to Trusted)
    def failure_lits(L):
        return set(l for l in L if 'StatusCodes::failure' in l or 'ingredient_deltas' in l)
    trusted_pos = None
    for facts, key in classes.get('Trusted', []):
        L = set(l for l in failure_lits(fact_literals(T, fn, facts)) if not l.startswith('!'))
        trusted_pos = L if trusted_pos is None else trusted_pos & L
    trusted_pos = trusted_pos or set()
    for cls in ('Valid', 'Trusted'):
        bad = None
        for facts, key in classes.get(cls, []):
            FL = failure_lits(fact_literals(T, fn, facts))
            for l in FL:
                if not l.startswith('!') or l[1:] in FL:
                    # (the same pure accessor evaluated at two sites with both outcomes: infeasible path)
                    continue
                if cls == 'Trusted' or l[1:] not in trusted_pos:
                    bad = l
        ctx.ob('C04-D1', VS, 'return ' + cls, 'monotone in failures', bad is None, detail='' if not bad else 'path to %s requires a failure guard to be false: %s' % (cls, bad))

    # D4: tolerance predicate folded over all code constants
    s, dnf = T.truth_dnf(TOL)
    ctx.analysed(TOL)
    consts = {}
    for name, d in prog.bodies.items():
        if d['kind'] == 'const' and d['ret'].endswith('str'):
            b = d['blocks']
            if len(b) == 1 and len(b[0]['s']) == 1 and b[0]['s'][0][1]['k'] == 'use' and 'c' in b[0]['s'][0][1]['o']:
                m = re.match(r'^const "(.*)"$', b[0]['s'][0][1]['o']['c'], re.S)
                if m:
                    consts[name] = m.group(1)
    short_consts = {}
    for k, v in consts.items():
        short_consts.setdefault(k.split('::')[-1], set()).add(v)
    codes = sorted(set(v for k, v in consts.items() if ('validation_codes::' in k or 'validation_status::' in k or 'identity' in k or 'status' in k.lower())))
    ctx.floor('string constants visible for tolerance folding', len(codes), 100)

    def eval_lit(l, code):
        neg = l.startswith('!')
        if neg:
            l = l[1:]
        m = re.fullmatch(r'PartialEq::eq\((\w+),(\w+)\)', l)
        if m and m.group(2) in short_consts and len(short_consts[m.group(2)]) == 1:
            r = code == next(iter(short_consts[m.group(2)]))
            return (not r) if neg else r
        m = re.fullmatch(r'(?:str::)?starts_with\((\w+),(\w+)\)', l)
        if m and m.group(2) in short_consts and len(short_consts[m.group(2)]) == 1:
            r = code.startswith(next(iter(short_consts[m.group(2)])))
            return (not r) if neg else r
        return None
    shape_ok = dnf is not None
    accepted = set()
    if dnf is not None:
        for code in codes + ['zzz.unknown', 'cawg.x509.anything', 'cawg.ica.anything', 'cawg.identity.anything']:
            val = False
            for conj in dnf:
                vs = [eval_lit(l, code) for l in conj]
                if any(v is None for v in vs):
                    shape_ok = False
                    break
                if all(vs):
                    val = True
            if val:
                accepted.add(code)
    ctx.ob('C04-D4', TOL, 'predicate shape', 'pure ==/starts_with over constants', shape_ok, detail='' if shape_ok else 'shape not recognised: ' + s)
    if shape_ok:
        expected = set(c for c in codes + ['cawg.x509.anything'] if c == 'signingCredential.untrusted' or c.startswith('cawg.x509.'))
        extra = accepted - expected
        missing = expected - accepted
        ctx.ob('C04-D4', TOL, 'accepted set', '== {signingCredential.untrusted} ∪ cawg.x509.*', not extra and not missing,
               detail='' if not extra and not missing else 'tolerated set differs: extra=%s missing=%s' % (sorted(extra)[:8], sorted(missing)[:8]))
        ctx.note('tolerance predicate: %s ; accepted %d of %d constants' % (s, len(accepted), len(codes)))

    # D5: legacy fallback in Reader::validation_state
    if ctx.require(prog.has(RVS), RVS):
        rf = prog.fn(RVS)
        ctx.analysed(RVS, len(list(rf.calls())))
        eng2, hits2 = ret_hits(rf)
        ctx.states += eng2.states
        seen_delegate = False
        for cls, facts, env, key, bi in hits2:
            if cls == 'call:' + VS:
                seen_delegate = True
        ctx.ob('C04-D5', RVS, 'delegates', 'ValidationResults::validation_state when results present', seen_delegate)
        for want, rule in (('Trusted', 'trusted-credential evidence'), ('Valid', 'no non-tolerated failure')):
            bad = None
            n = 0
            for cls, facts, env, key, bi in hits2:
                if cls != want:
                    continue
                n += 1
                L = fact_literals(T, rf, facts)
                if want == 'Trusted':
                    # must be dominated by a guard that establishes a trusted credential / absence of ANY failure
                    good = any(re.search(r'SIGNING_CREDENTIAL_TRUSTED', l) and not l.startswith('!') for l in L) or \
                        any(re.search(r'is_empty|is_none', l) and not l.startswith('!') and 'validation_status' in l for l in L) or \
                        (any(l == '!ok(Reader::validation_status(self))' for l in L) and any(re.search(r'active_manifest', l) and (l.startswith('ok(') or l.endswith('=1')) for l in L))
                else:
                    good = any(('Iterator::any' in l and l.startswith('!')) or ('is_empty' in l and not l.startswith('!')) or ('ok(' in l and l.startswith('!')) for l in L)
                # when a legacy status list is present, EVERY entry other than the tolerated code counts as an error: the `any` predicate is exactly
                # `code != signingCredential.untrusted` (an extra conjunct such as `!passed` lets failure codes through)
                if good and any(l == 'ok(Reader::validation_status(self))' for l in L):
                    anys = [l for l in L if l.startswith('!Iterator::any[')]
                    exact = [l for l in anys if re.match(r'^!Iterator::any\[(PartialEq::ne\(ValidationStatus::code\(\w+\),SIGNING_CREDENTIAL_UNTRUSTED\)|!PartialEq::eq\(ValidationStatus::code\(\w+\),SIGNING_CREDENTIAL_UNTRUSTED\)|PartialEq::ne\(SIGNING_CREDENTIAL_UNTRUSTED,ValidationStatus::code\(\w+\)\))\]\(Reader::validation_status', l)]
                    if anys and not exact:
                        good = False
                if not good:
                    bad = (key, L)
                    break
            if n == 0:
                ctx.note('Reader::validation_state legacy arm no longer returns %s' % want)
                continue
            ctx.ob('C04-D5', RVS, 'return ' + want + ' (legacy arm)', rule, bad is None,
                   detail='' if bad is None else 'legacy arm returns %s with only: %s' % (want, sorted(bad[1])),
                   site=loc(rf.d['span']), witness=None if bad is None else {'blocks': eng2.path_of(bad[0])[:40]})
