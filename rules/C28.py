"""C28 No network access unless the configuration enables it."""
import re
from lib import CallGuard, LocalGuard, loc, classify_ret, Engine
from terms import Terms, ret_hits, fact_literals
import oblig
from oblig import TermGuard

EXPLANATION = ("Sink gating over the resolved call graph + all-paths MIR dominance: every function that issues an HTTP request outside "
               "sdk/src/http is enumerated (sinks); each sink's callers are a closed table (who-may-call); each call into a sink (or into its "
               "single forwarding wrapper) must be dominated by the enabling guard named in the table (settings.verify.remote_manifest_fetch, "
               "OcspFetchPolicy::FetchAllowed constructed only under settings.verify.ocsp_fetch, the Some edge of a time-stamp URL, the did:web "
               "method match under decode_identity_assertions, the Remote signer variant). The remote-manifest refusal error carries the referenced URL.")
RULE = "obligation = (caller, call into sink, enabling guard); new sinks / new callers are violations"

HTTP_CALL = re.compile(r'http::(Sync|Async)HttpResolver::http_resolve(_async)?$')


def base(n):
    return re.sub(r'::\{closure#\d+\}', '', n)


# sink (base name) -> description
SINKS = {
    'store::Store::fetch_remote_manifest': 'remote manifest fetch',
    'store::Store::fetch_remote_manifest_async': 'remote manifest fetch',
    'crypto::ocsp::fetch::fetch_ocsp_response': 'OCSP fetch',
    'crypto::ocsp::fetch::fetch_ocsp_response_async': 'OCSP fetch',
    'crypto::time_stamp::http_request::time_stamp_request_http': 'time-stamp authority request',
    'crypto::time_stamp::http_request::time_stamp_request_http_async': 'time-stamp authority request',
    'identity::claim_aggregation::w3c_vc::did_web::get_did_doc': 'did:web resolution',
    'identity::claim_aggregation::w3c_vc::did_web::get_did_doc_async': 'did:web resolution',
    '<settings::signer::RemoteSigner as signer::Signer>::sign': 'remote signing service',
}


def run(ctx):
    prog = ctx.prog(('c2pa',))
    T = Terms(prog)
    # ---- enumerate sinks
    found = {}
    for name in prog.fns():
        fn = prog.fn(name)
        if fn.d['span']['file'].startswith('sdk/src/http/'):
            continue
        for bi, t in fn.calls():
            if HTTP_CALL.search(t['fd']):
                found.setdefault(base(name), []).append(loc(t['span']))
    for s, sites in sorted(found.items()):
        ctx.ob('C28-D1', s, 'HTTP request', 'sink is in the gated-sink table', s in SINKS,
               detail=('%s at %s' % (SINKS.get(s, 'UNTABLED network sink'), sites)), site=sites[0])
    for s in SINKS:
        ctx.ob('C28-D1', s, 'table row', 'sink still exists', s in found, detail='', nontrivial=False)
    ctx.floor('network sink functions outside the http layer', len(found), 9, rule='C28-D1')

    def callers_of(targets):
        out = []
        tset = set(targets)
        for name in prog.fns():
            fn = prog.fn(name)
            for bi, t in fn.calls():
                if t['fd'] == 'std::future::Future::poll':
                    continue
                tg = set(base(x) for x in prog.callee_targets(t))
                if tg & tset and base(name) not in tset:
                    out.append((name, bi, t))
        return out

    def gate(rule, targets, table, what):
        """every call into `targets` comes from a function in table, dominated by that row's guard"""
        n = 0
        for name, bi, t in callers_of(targets):
            n += 1
            fn = prog.fn(name)
            ctx.analysed(name, 1)
            row = None
            for pat, g in table:
                if re.search(pat, name):
                    row = g
                    break
            if row is None:
                ctx.ob(rule, name, 'calls ' + t['fd'].split('::')[-1], 'caller is in the who-may-call table for ' + what, False,
                       detail='untabled caller of a network sink (%s) at %s' % (what, loc(t['span'])), site=loc(t['span']))
                continue
            if row == 'forward':
                ctx.ob(rule, name, 'calls ' + t['fd'].split('::')[-1], 'forwarding wrapper (gated at its own callers)', True, site=loc(t['span']), nontrivial=False)
                continue
            guards = row(fn) if callable(row) else row
            oblig.effect_requires(ctx, rule, fn, 'call into ' + what, lambda b2, blk, _bi=bi: b2 == _bi, guards)
        return n

    # ---- remote manifests
    g_rm = lambda fn: [TermGuard(T, r'settings\(.*\)\.verify\.remote_manifest_fetch$', 'true', name='settings.verify.remote_manifest_fetch = true')]
    n = gate('C28-D1', ['store::Store::fetch_remote_manifest', 'store::Store::fetch_remote_manifest_async'],
             [(r'^store::Store::handle_remote_manifest(_async)?(::\{closure#0\})?$', g_rm)], 'remote manifest fetch')
    ctx.floor('calls into fetch_remote_manifest*', n, 2, rule='C28-D1')
    # D2: refusal error carries the URL
    for hn in ('store::Store::handle_remote_manifest', 'store::Store::handle_remote_manifest_async::{closure#0}'):
        if not ctx.require(prog.has(hn), hn):
            continue
        fn = prog.fn(hn)
        ok = False
        for b in fn.B:
            for dst, rv in b['s']:
                if rv['k'] == 'agg' and rv.get('variant') == 'RemoteManifestUrl':
                    term = T.op_term(fn, rv['ops'][0])
                    if 'ext_ref' in term:
                        ok = True
        ctx.ob('C28-D2', hn, 'Err(RemoteManifestUrl(_))', 'payload derived from ext_ref', ok)
        gf = TermGuard(T, r'settings\(.*\)\.verify\.remote_manifest_fetch$', 'false', name='remote_manifest_fetch = false')
        oblig.returns_only_if(ctx, 'C28-D2', fn, 'Err', [gf, CallGuard(r'Store::is_valid_remote_url$', 'false', name='not a remote url')], info=False) if False else None

    # ---- OCSP
    padt = prog.adts.get('crypto::cose::ocsp::OcspFetchPolicy')
    pidx = None
    if ctx.require(padt is not None, 'OcspFetchPolicy (adt)'):
        pidx = [v['name'] for v in padt['variants']].index('FetchAllowed')
    g_pol = lambda fn: [LocalGuard('fetch_policy', 'variant:FetchAllowed', name='fetch_policy = OcspFetchPolicy::FetchAllowed', variant_index=pidx)]
    n = gate('C28-D1', ['crypto::ocsp::fetch::fetch_ocsp_response', 'crypto::ocsp::fetch::fetch_ocsp_response_async'],
             [(r'^crypto::cose::ocsp::fetch_and_check_ocsp_response(_async)?(::\{closure#0\})?$', 'forward')], 'OCSP fetch')
    n2 = gate('C28-D1', ['crypto::cose::ocsp::fetch_and_check_ocsp_response', 'crypto::cose::ocsp::fetch_and_check_ocsp_response_async'],
              [(r'^crypto::cose::ocsp::check_ocsp_status(_async)?(::\{closure#0\})?$', g_pol),
               (r'^store::Store::get_ocsp_response_ders(_async)?(::\{closure#0\})?$', 'forward')], 'OCSP fetch (fetch_and_check)')
    ctx.floor('calls into fetch_and_check_ocsp_response*', n2, 4, rule='C28-D1')
    # FetchAllowed constructed only under settings.verify.ocsp_fetch
    nfa = 0
    for name in prog.fns():
        fn = prog.fn(name)
        blocks = [bi for bi, b in enumerate(fn.B) for dst, rv in b['s'] if rv['k'] == 'agg' and rv.get('variant') == 'FetchAllowed' and 'OcspFetchPolicy' in rv.get('adt', '')]
        if not blocks or name.startswith('<crypto::cose::ocsp::OcspFetchPolicy as '):
            continue   # derived Clone/Debug impls copy an existing value
        nfa += len(blocks)
        ctx.analysed(name, 0)
        oblig.effect_requires(ctx, 'C28-D1', fn, 'construct OcspFetchPolicy::FetchAllowed', lambda bi, b, _s=set(blocks): bi in _s,
                              [TermGuard(T, r'settings\(.*\)\.verify\.ocsp_fetch$', 'true', name='settings.verify.ocsp_fetch = true')])
    ctx.floor('FetchAllowed construction sites', nfa, 1, rule='C28-D1')
    # get_ocsp_response_ders: callers pass get_manifest_labels_for_ocsp(settings), which is empty unless both builder settings are Some
    nl = 0
    for name, bi, t in callers_of(['store::Store::get_ocsp_response_ders', 'store::Store::get_ocsp_response_ders_async']):
        fn = prog.fn(name)
        nl += 1
        term = T.op_term(fn, t['args'][1])
        ctx.ob('C28-D1', name, 'get_ocsp_response_ders(labels, ..)', 'labels = get_manifest_labels_for_ocsp(settings)', 'get_manifest_labels_for_ocsp' in term,
               detail='labels argument: ' + term[:160], site=loc(t['span']))
    ctx.floor('callers of get_ocsp_response_ders*', nl, 2, rule='C28-D1')
    gl = 'store::Store::get_manifest_labels_for_ocsp'
    if ctx.require(prog.has(gl), gl):
        fn = prog.fn(gl)
        ctx.analysed(gl, len(list(fn.calls())))
        eng, hits = ret_hits(fn)
        ctx.states += eng.states
        # (1) non-empty constructors of the label list only under certificate_status_fetch = Some
        ctor = [bi for bi, t in fn.calls() if (t['fd'] == 'std::clone::Clone::clone' and 'claims' in T.op_term(fn, t['args'][0])) or 'into_vec' in t['fd'] or 'from_elem' in t['fd']]
        ctx.floor('non-empty label-list constructors in get_manifest_labels_for_ocsp', len(ctor), 2, rule='C28-D1')
        oblig.effect_requires(ctx, 'C28-D1', fn, 'non-empty label list constructed', lambda bi, b, _s=set(ctor): bi in _s,
                              [TermGuard(T, r'settings\.builder\.certificate_status_fetch$', 'some', name='builder.certificate_status_fetch = Some'),
                               TermGuard(T, r'settings\.builder\.certificate_status_fetch$', 1, name='builder.certificate_status_fetch = Some (discr)')])
        # (2) certificate_status_should_override = None  =>  Vec::new()
        for cls, facts, env, key, bi in hits:
            v = env.get(0)
            vt = T.atom_term(fn, v) if v else '?'
            L = fact_literals(T, fn, facts)
            if any(re.search(r'certificate_status_should_override\)?=0$', l) or (l.startswith('!ok(') and 'certificate_status_should_override' in l) for l in L):
                ctx.ob('C28-D1', gl, 'return on certificate_status_should_override = None', 'Vec::new()', bool(re.fullmatch(r'Vec::new\(\)', vt)), detail='returns ' + vt[:100])

    # ---- time stamps
    g_url = lambda fn: [CallGuard(r'(time_authority_url|time_stamp_service_url)$', 'some', name='time-stamp URL configured (Some)')]
    n = gate('C28-D1', ['crypto::time_stamp::http_request::time_stamp_request_http', 'crypto::time_stamp::http_request::time_stamp_request_http_async'],
             [(r'^crypto::time_stamp::http_request::default_rfc3161_request(_async)?(::\{closure#0\})?$', 'forward')], 'time-stamp request')
    n2 = gate('C28-D1', ['crypto::time_stamp::http_request::default_rfc3161_request', 'crypto::time_stamp::http_request::default_rfc3161_request_async'],
              [(r'^signer::(Async)?Signer::send_timestamp_request', g_url),
               (r'^crypto::time_stamp::provider::(Async)?TimeStampProvider::send_time_stamp_request', g_url),
               (r'^assertions::timestamp::TimeStamp::send_timestamp_token_request(_async)?(::\{closure#0\})?$', 'forward')], 'time-stamp request (default_rfc3161_request)')
    ctx.floor('calls into default_rfc3161_request*', n2, 6, rule='C28-D1')
    # send_timestamp_token_request takes an explicit tsa_url: its callers pass a configured URL
    n3 = 0
    for name, bi, t in callers_of(['assertions::timestamp::TimeStamp::send_timestamp_token_request', 'assertions::timestamp::TimeStamp::send_timestamp_token_request_async']):
        n3 += 1
        fn = prog.fn(name)
        term = T.op_term(fn, t['args'][0])
        ctx.ob('C28-D1', name, 'send_timestamp_token_request(tsa_url, ..)', 'tsa_url is an explicit parameter/setting', bool(re.search(r'tsa_url|time_authority_url|url', term)),
               detail='tsa_url argument: ' + term[:120], site=loc(t['span']))
    ctx.floor('callers of send_timestamp_token_request*', n3, 1, rule='C28-D1')

    # ---- did:web
    n = gate('C28-D1', ['identity::claim_aggregation::w3c_vc::did_web::get_did_doc', 'identity::claim_aggregation::w3c_vc::did_web::get_did_doc_async'],
             [(r'^identity::claim_aggregation::w3c_vc::did_web::resolve(_async)?(::\{closure#0\})?$', 'forward')], 'did:web')
    g_web = lambda fn: [TermGuard(T, r'method_name', 'true', name='DID method == "web"', call_pat=r'PartialEq::eq$|method_name$')]
    n2 = 0
    for name, bi, t in callers_of(['identity::claim_aggregation::w3c_vc::did_web::resolve', 'identity::claim_aggregation::w3c_vc::did_web::resolve_async']):
        n2 += 1
        ok = bool(re.search(r'IcaSignatureVerifier::<\'a>::check_issuer_signature', name))
        ctx.ob('C28-D1', name, 'calls did_web::resolve', 'caller is IcaSignatureVerifier::check_issuer_signature', ok, site=loc(t['span']))
    ctx.floor('callers of did_web::resolve*', n2, 2, rule='C28-D1')
    # the identity decode gate in Manifest::from_store
    mfs = [n for n in prog.fns() if re.match(r'^manifest::Manifest::from_store(_async)?(::\{closure#0\})?$', n)]
    for name in mfs:
        fn = prog.fn(name)
        sites = [bi for bi, t in fn.calls() if re.search(r'identity::|CawgValidator|decode_identity', t['fd']) and re.search(r'validate|decode', t['fd'])]
        if not sites:
            continue
        ctx.analysed(name, len(sites))
        oblig.effect_requires(ctx, 'C28-D1', fn, 'identity assertion validation (may resolve did:web)', lambda bi, b, _s=set(sites): bi in _s,
                              [TermGuard(T, r'settings\(.*\)\.core\.decode_identity_assertions$', 'true', name='settings.core.decode_identity_assertions = true')])

    # ---- remote signer
    rs = prog.adts.get('settings::signer::RemoteSigner')
    nrs = 0
    for name in prog.fns():
        fn = prog.fn(name)
        for bi, b in enumerate(fn.B):
            for dst, rv in b['s']:
                if rv['k'] == 'agg' and rv.get('adt') == 'settings::signer::RemoteSigner':
                    nrs += 1
                    # constructed only on the SignerSettings::Remote arm
                    eng = Engine(fn)
                    pass
                    ctx.ob('C28-D1', name, 'construct RemoteSigner', 'inside settings::signer (from the explicit Remote signer setting)', name.startswith('settings::signer::'),
                           detail='constructed at ' + loc(rv.get('span')), site=loc(rv.get('span')))
    ctx.floor('RemoteSigner construction sites', nrs, 1, rule='C28-D1')
