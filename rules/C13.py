"""C13 Range hashing: end-of-data guard, checked range arithmetic, hasher hand-off ownership, bytes fed to the hasher."""
import re
from lib import loc, FROM_RESIDUAL
from terms import Terms
import oblig

EXPLANATION = ("Structural clauses of hash_stream_by_alg_with_progress_impl decided on MIR: (D1) the `data_len < 1` and `data_len < range_end` comparisons exist, their true "
               "edges reach no read/hash/Ok block, and the second dominates both loops that consume the caller's ranges; (D5) the bound compared with the data length is "
               "derived from every supplied range (an iterator traversal), not from a single indexed element, or each consuming loop compares its own end with the data length; "
               "(D2) every overflow-checked +,-,* whose operand is a raw HashRange::start/length/bmff_offset value is absent (only checked_*/saturating_* combine caller "
               "values), and `checked_add(..) - 1` is dominated by the length != 0 edge; (D3) the worker closure owns what it touches (no by-reference capture), updates then sends "
               "the hasher on every path, the hasher reaching finalize originates only from the initial constructor or rx.recv(), a recv error returns Err; (D4) every "
               "Hasher::update argument is a buffer that passed read_exact on the input stream or the 8-byte big-endian BMFF offset under the bmff_v2_starts test. "
               "Digest equality with a reference, the range algebra and chunk-size independence of the value are not decided.")
RULE = "obligation = (function, effect site, dominating guard / origin class)"
F = 'utils::hash_utils::hash_stream_by_alg_with_progress_impl'
RAW = re.compile(r'^HashRange::(start|length|bmff_offset)\(')
ARITH = ('Add', 'Sub', 'Mul', 'AddWithOverflow', 'SubWithOverflow', 'MulWithOverflow', 'AddUnchecked', 'SubUnchecked', 'MulUnchecked', 'Shl', 'ShlUnchecked')


def upvar_tys(cf):
    """captured-variable types of a closure body: the tupled-upvars generic of the closure type of _1"""
    ty = cf.local_ty(1) or ''
    m = re.search(r', \((.*)\)\]\)$', ty)
    if not m:
        return None
    out, depth, cur = [], 0, ''
    for ch in m.group(1):
        if ch in '<([':
            depth += 1
        elif ch in '>)]':
            depth -= 1
        if ch == ',' and depth == 0:
            out.append(cur.strip()); cur = ''
        else:
            cur += ch
    if cur.strip():
        out.append(cur.strip())
    return out


def _bins(fn):
    for bi, b in enumerate(fn.B):
        for si, (dst, rv) in enumerate(b['s']):
            if rv['k'] == 'bin':
                yield bi, si, dst, rv


def _cmp_switch(fn, T, pred):
    """blocks whose statements compute a comparison satisfying pred(op, term_a, term_b) and which switch on it: (block, true_target, false_target)"""
    out = []
    for bi, si, dst, rv in _bins(fn):
        if rv['op'] not in ('Lt', 'Le', 'Gt', 'Ge', 'Eq', 'Ne'):
            continue
        a, b = T.op_term(fn, rv['a']), T.op_term(fn, rv['b'])
        if not pred(rv['op'], a, b):
            continue
        t = fn.B[bi]['t']
        if t['k'] != 'switch' or t['d']['l'] != dst['l']:
            continue
        false_t = [x for v, x in t['ts'] if v == 0]
        out.append((bi, t['o'] if false_t else None, false_t[0] if false_t else None, a, b, rv))
    return out


def run(ctx):
    prog = ctx.prog(('c2pa',))
    T = Terms(prog)
    if not ctx.require(prog.has(F), F):
        return
    fn = prog.fn(F)
    calls = list(fn.calls())
    ctx.analysed(F, len(calls))
    dom = fn.dominates
    reads = [bi for bi, t in calls if re.search(r'Read::read_exact$|Seek::seek$', t['fd'])]
    updates = [bi for bi, t in calls if t['fd'].endswith('Hasher::update')]
    finals = [bi for bi, t in calls if t['fd'].endswith('Hasher::finalize')]
    ctx.floor('read_exact/seek sites in the hashing loops', len(reads), 5, rule='C13-D1')
    ctx.floor('Hasher::update sites (parent body)', len(updates), 4, rule='C13-D1')
    ctx.ob('C13-D1', F, 'Hasher::finalize', 'exactly one', len(finals) == 1, detail=str(len(finals)), nontrivial=False)
    sinks = set(reads) | set(updates) | set(finals)
    DL = r'^stream_len\('

    # D1a: empty data rejected before anything is read
    # any equivalent form of "the data is empty": data_len < 1, data_len == 0, 0 == data_len (true edge = empty); data_len != 0, data_len > 0, data_len >= 1 (false edge = empty)
    c1 = []
    for x in _cmp_switch(fn, T, lambda op, a, b: (re.search(DL, a) and b in ('0', '1')) or (re.search(DL, b) and a in ('0', '1'))):
        bi_, tt_, ft_, a_, b_, rv_ = x
        op = rv_['op']
        if re.search(DL, b_):     # constant on the left: mirror
            op = {'Lt': 'Gt', 'Gt': 'Lt', 'Le': 'Ge', 'Ge': 'Le'}.get(op, op); k = a_
        else:
            k = b_
        empty_on_true = (op, k) in (('Lt', '1'), ('Eq', '0'), ('Le', '0'))
        empty_on_false = (op, k) in (('Ne', '0'), ('Gt', '0'), ('Ge', '1'))
        if empty_on_true:
            c1.append(x)
        elif empty_on_false:
            c1.append((bi_, ft_, tt_, a_, b_, rv_))      # swap so that index 1 is the "empty" edge and index 2 the "non-empty" edge
    if ctx.ob('C13-D1', F, 'data_len < 1', 'comparison exists', len(c1) == 1, detail=str(len(c1)), nontrivial=False):
        bi, tt, ft, a, b, rv = c1[0]
        r = fn.reachable(tt, avoid=(bi,))
        ctx.ob('C13-D1', F, 'data_len < 1 true edge', 'reaches no read/update/finalize (returns Err)', not (r & sinks), detail=str(sorted(r & sinks)[:4]), site=loc(fn.B[bi]['t'].get('span')))
        ctx.ob('C13-D1', F, 'reads and hash updates', 'dominated by data_len >= 1', all(dom(ft, s) for s in sinks), detail=str([s for s in sinks if not dom(ft, s)][:4]))
        # data_len - 1 only after that edge
        for bj, si, dst, rv2 in _bins(fn):
            if rv2['op'] == 'SubWithOverflow' and re.search(DL, T.op_term(fn, rv2['a'])) and T.op_term(fn, rv2['b']) == '1':
                ctx.ob('C13-D2', F, 'data_len - 1', 'dominated by data_len >= 1', dom(ft, bj), site='block %d' % bj)

    # consuming loops over the caller's ranges
    def elem_ty(bi):
        d = fn.B[bi]['t']['dest']
        return fn.local_ty(d['l']) if not d['p'] else ''
    # loops over the caller's ranges are recognised by element type (Option<HashRange> / Option<&HashRange>), not by variable names
    nexts = [bi for bi, t in calls if t['fd'].endswith('Iterator::next') and 'HashRange' in (elem_ty(bi) or '')]
    range_loops = [bi for bi, t in calls if t['fd'].endswith('Iterator::next') and re.search(r'RangeInclusive<u64>', elem_ty(bi) or '') and any(
        tt['fd'].endswith('Seek::seek') and ('RangeInclusive::start(%s.Some.0)' % T.call_term(fn, bi)) in T.call_term(fn, b2) for b2, tt in calls)]
    consumers = []
    for nb in nexts:
        r = fn.reachable(fn.B[nb]['t']['t'])
        hit = [bi for bi, t in calls if bi in r and nb in fn.reachable(bi) and re.search(r'RangeSet::remove_range$|Vec::<T, A>::push$|Vec::push$', t['fd']) and (T.call_term(fn, nb) + '.Some.0') in T.call_term(fn, bi)]
        if hit:
            consumers.append((nb, hit))
    ctx.floor('loops consuming the supplied ranges (exclusion, inclusion)', len(consumers), 2, rule='C13-D1')

    # D1b/D5: the end-of-data comparison
    c2 = _cmp_switch(fn, T, lambda op, a, b: (op in ('Lt', 'Le') and re.search(DL, a) and not re.fullmatch(r'\d+', b)) or (op in ('Gt', 'Ge') and re.search(DL, b) and not re.fullmatch(r'\d+', a)))
    glob = []
    for bi, tt, ft, a, b, rv in c2:
        r = fn.reachable(tt, avoid=(bi,))
        if r & sinks:
            continue
        if all(dom(ft, nb) for nb, _h in consumers):
            glob.append((bi, tt, ft, a, b, rv))
    per_loop = []
    if not glob:
        # alternative shape: each consuming loop compares its own end with the data length before using the range
        for nb, hit in consumers:
            ok = False
            for bi, tt, ft, a, b, rv in c2:
                if (T.call_term(fn, nb) + '.Some.0') in (a + b) and all(dom(ft, h) for h in hit) and not (fn.reachable(tt, avoid=(bi,)) & set(hit)):
                    ok = True
            per_loop.append(ok)
    ctx.ob('C13-D1', F, 'use of a supplied range (remove_range / push)', 'dominated by the false edge of data_len < range end, whose true edge returns Err',
           bool(glob) or (bool(per_loop) and all(per_loop)), detail='no end-of-data comparison dominates the consuming loops' if not glob else '', site=loc(fn.B[glob[0][0]]['t'].get('span')) if glob else None)
    for bi, tt, ft, a, b, rv in glob:
        other = rv['b'] if re.search(DL, a) else rv['a']
        org = fn.origins(other)
        terms = sorted(set(T.origin_term(fn, o)[0] for o in org))
        single = [x for x in terms if 'Index::index(' in x or re.search(r'\b(last|first|get)\(', x)]
        srcs = set(re.sub(r'^Iterator::next\((.*)\)$', r'\1', T.call_term(fn, nb)) for nb in nexts)
        whole = [x for x in terms if re.search(r'Iterator::(next|fold|try_fold|max|max_by_key|map|sum)\b', x) and any(sx and sx in x for sx in srcs)]
        # the traversal may live in a private helper (`let range_end = max_range_end(&hr)?`): read through one level of crate-local calls
        for o in org:
            inner = o
            while inner and inner[0] == 'field':
                inner = inner[1]
            if inner and inner[0] == 'call':
                for tgt in prog.callee_targets(fn.B[inner[1]]['t']):
                    if prog.has(tgt) and 'hash_utils' in tgt and tgt != F:
                        hf = prog.fn(tgt)
                        hterms = sorted(set(T.origin_term(hf, o2)[0] for o2 in hf.origins({'l': 0, 'p': []})))
                        hall = ' ; '.join(hterms) + ' ; ' + ' ; '.join(T.call_term(hf, b2) for b2, t2 in hf.calls())
                        if re.search(r'Iterator::(next|fold|try_fold|max|max_by_key|map)\b', hall) and 'HashRange::' in hall and 'Index::index(' not in hall and re.search(r'(Ord::max|cmp::max|Iterator::max|max_by_key|max_by)\(', hall):
                            whole.append('%s(..): traverses its argument' % tgt.split('::')[-1])
                            single = [x for x in single if tgt.split('::')[-1] not in x]
        # ... and it is the MAXIMUM over the traversal (ranges are sorted by start, not by end): the accumulation goes through max(), or an assignment
        # guarded by a comparison with the accumulator; `range_end = end` keeps only the last range's end
        alltxt = ' ; '.join(terms) + ' ; ' + ' ; '.join(whole)
        is_max = re.search(r'(Ord::max|cmp::max|Iterator::max|max_by_key|max_by)\(', alltxt) is not None or 'traverses its argument' in alltxt
        if not is_max:
            name_acc = fn.name_of(other['l']) if 'l' in other and not other.get('p') else None
            for blk in fn.B:
                for dst, rv in blk['s']:
                    if rv['k'] == 'bin' and rv['op'] in ('Lt', 'Le', 'Gt', 'Ge') and name_acc and name_acc in (T.op_term(fn, rv['a']), T.op_term(fn, rv['b'])) and 'checked_add' in (T.op_term(fn, rv['a']) + T.op_term(fn, rv['b'])):
                        is_max = True
        ctx.ob('C13-D5', F, 'bound compared with data_len', 'is the maximum range end over the traversal (max / guarded assignment), not the last one seen', is_max, detail=alltxt[:300], site=loc(fn.B[bi]['t'].get('span')))
        ctx.ob('C13-D5', F, 'bound compared with data_len', 'derived from every supplied range (iterator traversal), not from one indexed element',
               bool(whole) and not single, detail='origins: %s' % '; '.join(t[:110] for t in terms)[:600], site=loc(fn.B[bi]['t'].get('span')))

        # ... and EVERY element of the traversal contributes to it: inside the loop that accumulates the bound, no path from the iterator's next() back
        # to next() avoids the accumulation step (a `continue` for some kind of range -- e.g. BMFF offset markers -- lets that kind reach past the end
        # of the data unchecked).  Paths that leave the loop with Err are fine (they do not come back to next()).
        skip = []
        checked_loops = 0

        def loop_skips(f, must):
            nonlocal checked_loops
            for nb2, t2 in f.calls():
                if not t2['fd'].endswith('Iterator::next') or t2.get('t') is None:
                    continue
                body = f.reachable(t2['t'], avoid=(nb2,))
                inloop = [m for m in must if m in body and nb2 in f.reachable(m)]
                if not inloop:
                    continue
                checked_loops += 1
                if nb2 in f.reachable(t2['t'], avoid=tuple(inloop)):
                    skip.append('%s: loop at %s' % (f.name.split('::')[-1], loc(t2.get('span'))))

        def chase(f, l, seen=()):
            ds = [d for d in f.defs.get(l, ()) if d[0] in ('stmt', 'call')]
            if len(ds) == 1 and ds[0][0] == 'stmt' and ds[0][3]['k'] == 'use' and 'l' in ds[0][3]['o'] and not ds[0][3]['o'].get('p') and l not in seen:
                return chase(f, ds[0][3]['o']['l'], seen + (l,))
            return l
        if 'l' in other and not other.get('p'):
            acc = chase(fn, other['l'])
            accn = fn.name_of(acc)
            must = [d[1] for d in fn.defs.get(acc, ()) if d[0] in ('stmt', 'call')]
            if not re.search(r'(Ord::max|cmp::max)\(', alltxt):
                # guarded-assignment form: the step every element must reach is the comparison with the accumulator, not the (conditional) assignment
                must = [bi2 for bi2, blk in enumerate(fn.B) for dst, rv2 in blk['s'] if rv2['k'] == 'bin' and rv2['op'] in ('Lt', 'Le', 'Gt', 'Ge') and accn in (T.op_term(fn, rv2['a']), T.op_term(fn, rv2['b']))
                        and 'checked_add' in (T.op_term(fn, rv2['a']) + T.op_term(fn, rv2['b']))]
            loop_skips(fn, must)
        for o in org:
            inner = o
            while inner and inner[0] == 'field':
                inner = inner[1]
            if inner and inner[0] == 'call':
                for tgt in prog.callee_targets(fn.B[inner[1]]['t']):
                    if prog.has(tgt) and 'hash_utils' in tgt and tgt != F:
                        hf = prog.fn(tgt)
                        loop_skips(hf, [b2 for b2, t2 in hf.calls() if re.search(r'(Ord::max|cmp::max)$', t2['fd'].split('<')[0].rstrip(':')) or re.search(r'::max$', t2['fd'])])
        adaptors = re.findall(r'Iterator::(filter|filter_map|skip|skip_while|take|take_while|step_by)\b', alltxt)
        ctx.ob('C13-D5', F, 'bound compared with data_len', 'every element of the traversal reaches the accumulation step (no continue / filter that exempts a kind of range)',
               not skip and not adaptors and (checked_loops > 0 or bool(whole)), detail='; '.join(skip + adaptors) or 'loops checked: %d' % checked_loops, site=loc(fn.B[bi]['t'].get('span')))

    # D2: raw arithmetic on caller-controlled range values
    nraw = 0
    for bi, si, dst, rv in _bins(fn):
        if rv['op'] not in ARITH:
            continue
        a, b = T.op_term(fn, rv['a']), T.op_term(fn, rv['b'])
        if RAW.search(a) or RAW.search(b):
            nraw += 1
            ctx.ob('C13-D2', F, '%s(%s, %s)' % (rv['op'], a[:60], b[:60]), 'caller-supplied range values combine only through checked_*/saturating_*', False,
                   detail='unchecked arithmetic on a caller-controlled HashRange value', site='block %d' % bi)
        m = re.match(r'^(Option::ok_or\()?checked_add\(HashRange::start\((.*?)\),HashRange::length\(', a)
        if m and rv['op'].startswith('Sub') and b == '1':
            elem = m.group(2)
            z = _cmp_switch(fn, T, lambda op, x, y, _e=elem: op == 'Eq' and x == 'HashRange::length(%s)' % _e and y == '0')
            ok = any(dom(ft, bi) for _b, tt, ft, _x, _y, _r in z)
            ctx.ob('C13-D2', F, 'checked_add(start,length) - 1', 'dominated by length != 0', ok, site='block %d' % bi)
    for name in [n for n in prog.fns() if n.startswith(F + '::{closure')]:
        cf = prog.fn(name)
        for bi, si, dst, rv in _bins(cf):
            if rv['op'] in ARITH:
                a, b = T.op_term(cf, rv['a']), T.op_term(cf, rv['b'])
                if RAW.search(a) or RAW.search(b):
                    nraw += 1
                    ctx.ob('C13-D2', name, '%s(%s, %s)' % (rv['op'], a[:60], b[:60]), 'caller-supplied range values combine only through checked_*/saturating_*', False, site='block %d' % bi)
    chk = [bi for bi, t in calls if re.search(r'::checked_(add|sub)$', t['fd']) and 'HashRange::' in T.call_term(fn, bi)]
    ctx.ob('C13-D2', F, 'range end computations', 'use checked_add/checked_sub (sites found)', len(chk) >= 3, detail='%d checked sites, %d raw sites' % (len(chk), nraw))
    for bi in chk:
        # the None result must leave with Err: ok_or(..)? on it
        r = [b2 for b2, t2 in calls if t2['fd'] == FROM_RESIDUAL and T.call_term(fn, bi)[:40] in T.call_term(fn, b2)]
        ctx.ob('C13-D2', F, 'overflowing range end', 'leaves with Err (ok_or(..)?)', bool(r), site=loc(fn.B[bi]['t'].get('span')), detail=T.call_term(fn, bi)[:100])

    # D3: worker hand-off
    spawns = [bi for bi, t in calls if re.search(r'thread::Builder::spawn|thread::spawn$|thread::scope', t['fd'])]
    ctx.ob('C13-D3', F, 'worker spawn', 'exactly one spawn site (re-triage the ownership argument if the pipeline changes)', len(spawns) == 1, detail=str(len(spawns)), nontrivial=False)
    for sb in spawns:
        t = fn.B[sb]['t']
        clos = [x for x in (t.get('at') or []) if 'closure' in x]
        cname = None
        m = re.search(r'\{closure#(\d+)\}', ' '.join(clos) + ' ' + T.call_term(fn, sb))
        for n in prog.fns():
            if n.startswith(F + '::{closure'):
                cf = prog.fn(n)
                if any(c2['fd'].endswith('Hasher::update') for _b, c2 in cf.calls()) and any(c2['fd'].endswith('Sender::<T>::send') or c2['fd'].endswith('::send') for _b, c2 in cf.calls()):
                    cname = n
        if not ctx.ob('C13-D3', F, 'worker closure', 'resolves (updates and sends the hasher)', cname is not None, nontrivial=False):
            continue
        cf = prog.fn(cname)
        ctx.analysed(cname, len(list(cf.calls())))
        ut = upvar_tys(cf) or []
        ctx.ob('C13-D3', cname, 'captures', 'all by value (the worker owns hasher, chunk and sender)', bool(ut) and not any(u.lstrip().startswith('&') for u in ut), detail=str(ut))
        ctx.ob('C13-D3', cname, 'captured hasher', 'is the Hasher itself (no Arc/Mutex/reference/clone)', any(re.fullmatch(r'(utils::hash_utils::)?Hasher', u) for u in ut), detail=str(ut))
        ups = [b for b, c2 in cf.calls() if c2['fd'].endswith('Hasher::update')]
        snd = [b for b, c2 in cf.calls() if c2['fd'].endswith('::send')]
        rets = cf.ret_blocks()
        oblig.must_pass_through(ctx, 'C13-D3', cf, lambda bi, b, _s=set(snd): bi in _s, lambda bi, b, _u=set(ups): bi in _u, 'tx.send(hasher)', 'hasher.update(chunk)')
        oblig.must_pass_through(ctx, 'C13-D3', cf, lambda bi, b, _r=set(rets): bi in _r, lambda bi, b, _s=set(snd): bi in _s, 'worker return', 'tx.send(hasher)')
        for b in snd:
            term = T.call_term(cf, b)
            ctx.ob('C13-D3', cname, 'value sent back', 'the updated hasher', 'Hasher' in ((cf.B[b]['t'].get('at') or ['', ''])[1]), detail=term[:100])
    # origins of the hasher reaching finalize / update
    for fb in finals + updates:
        t = fn.B[fb]['t']
        org = fn.origins(t['args'][0])
        terms = sorted(set(T.origin_term(fn, o)[0] for o in org))
        bad = [x for x in terms if not (re.search(r'^(SHA256|SHA384|SHA512)\(', x) or re.search(r'^Receiver::recv\(', x) or re.fullmatch(r'[a-z_][a-z0-9_]*', x) or re.search(r'^Digest::new\(\)$', x))]
        ctx.ob('C13-D3', F, 'hasher used at %s' % fn.B[fb]['t']['fd'].split('::')[-1], 'originates only from the initial constructor or rx.recv()', not bad, detail=str(terms)[:300], site=loc(t.get('span')))
    news = [bi for bi, t in calls if re.search(r'Digest::new$', t['fd'])]
    first_iter = min([bi for bi, t in calls if t['fd'].endswith('Iterator::next') and bi in range_loops] or [10 ** 9])
    ctx.ob('C13-D3', F, 'hasher construction', 'only before the hashing loops (never re-created mid-stream)', all(not (n in fn.reachable(first_iter)) for n in news) and len(news) == 3, detail=str(news))
    recvs = [bi for bi, t in calls if re.search(r'Receiver::<T>::recv$', t['fd'])]
    for rb in recvs:
        # Err edge of recv must not reach finalize
        nxt = fn.B[rb]['t']['t']
        sw = fn.B[nxt]['t'] if fn.B[nxt]['t']['k'] == 'switch' else None
        ok = False
        if sw:
            err_t = [x for v, x in sw['ts'] if v == 1] or [sw['o']]
            ok = not (fn.reachable(err_t[0], avoid=(nxt,)) & set(finals + updates))
        ctx.ob('C13-D3', F, 'rx.recv() = Err', 'returns Err (no digest from a lost hasher)', ok, site=loc(fn.B[rb]['t'].get('span')))
    ctx.ob('C13-D3', F, 'rx.recv() sites', 'one per spawn', len(recvs) == len(spawns), detail='%d/%d' % (len(recvs), len(spawns)), nontrivial=False)

    # D4: bytes fed to the hasher
    def upd_ok(f2, bi):
        t = f2.B[bi]['t']
        term = T.op_term(f2, t['args'][1]) if len(t['args']) > 1 else ''
        return term
    rd_bufs = set()
    for bi, t in calls:
        if t['fd'].endswith('Read::read_exact'):
            rd_bufs.add(T.op_term(fn, t['args'][1]))
    for ub in updates:
        term = upd_ok(fn, ub)
        if term.startswith('to_be_bytes('):
            # BMFF offset marker: under the contains(start) && end == start test, fed as big-endian
            heads_t = [T.call_term(fn, h) for h in range_loops]
            g = [bi for bi, t in calls if re.search(r'contains$', t['fd']) and any('RangeInclusive::start(%s' % h in T.call_term(fn, bi) for h in heads_t)]
            ctx.ob('C13-D4', F, 'BMFF offset marker', 'to_be_bytes(range start) under bmff_v2_starts.contains(start)', any('RangeInclusive::start(%s.Some.0)' % h in term for h in heads_t) and any(dom(gb, ub) for gb in g), detail=term[:100], site=loc(fn.B[ub]['t'].get('span')))
            continue
        ok = term in rd_bufs
        ctx.ob('C13-D4', F, 'Hasher::update(%s)' % term[:50], 'argument is a buffer filled by read_exact on the input stream', ok, site=loc(fn.B[ub]['t'].get('span')))
        if ok:
            rds = set(bi for bi, t in calls if t['fd'].endswith('Read::read_exact') and T.op_term(fn, t['args'][1]) == term)
            oblig.must_pass_through(ctx, 'C13-D4', fn, lambda bi, b, _u=ub: bi == _u, lambda bi, b, _r=rds: bi in _r, 'Hasher::update(%s)' % term[:40], 'read_exact into the same buffer')
    # D6: each range is read from its own start: no path from the loop head to a read of that iteration skips the seek
    heads = list(range_loops)
    seeks = set(bi for bi, t in calls if t['fd'].endswith('Seek::seek') and any(('Start(RangeInclusive::start(%s.Some.0))' % T.call_term(fn, h)) in T.call_term(fn, bi) for h in heads))
    rdx = [bi for bi, t in calls if t['fd'].endswith('Read::read_exact')]
    ctx.floor('range loops in the hashing function', len(heads), 2, rule='C13-D6')
    for nb in heads:
        r = fn.reachable(fn.B[nb]['t']['t'], avoid=seeks | {nb})
        bad = [b for b in rdx if b in r]
        ctx.ob('C13-D6', F, 'read of a range', 'preceded on every path of the iteration by seek(Start(range.start))', not bad and bool(seeks), detail='reads reachable without the seek: %s' % bad, site=loc(fn.B[nb]['t'].get('span')))
    # D7: the BMFF offset markers are consumed in ascending order by the range-splitting loops: every iteration over that vector is preceded by a sort
    def okey(op):
        return frozenset(fn.origins(op))
    mk = [okey(t['args'][0]) for bi, t in calls if re.search(r'Vec::<T, A>::push$|Vec::push$', t['fd']) and 'HashRange::bmff_offset(' in T.call_term(fn, bi) and t['args']]
    mk = [k for k in mk if k]
    if ctx.ob('C13-D7', F, 'vector of BMFF offset markers', 'identified (pushes of HashRange::bmff_offset values)', bool(mk), nontrivial=False):
        K = mk[0]
        sorts = [bi for bi, t in calls if re.search(r'::(sort|sort_unstable|sort_by|sort_by_key)$', t['fd']) and t['args'] and okey(t['args'][0]) & K]
        iters = [bi for bi, t in calls if re.search(r'IntoIterator::into_iter$|::iter$', t['fd']) and t['args'] and okey(t['args'][0]) & K]
        ctx.ob('C13-D7', F, 'iterations over the BMFF offset markers', 'exist (range splitting)', len(iters) >= 1, detail=str(len(iters)), nontrivial=False)
        for ib in iters:
            ok = ib not in fn.reachable(0, avoid=set(sorts))
            ctx.ob('C13-D7', F, 'iteration over the BMFF offset markers', 'preceded on every path by a sort of that vector (markers are supplied in any order)', ok, site=loc(fn.B[ib]['t'].get('span')), detail='%d sort sites' % len(sorts))
    # read_exact errors leave with Err
    for bi, t in calls:
        if t['fd'].endswith('Read::read_exact') or t['fd'].endswith('Seek::seek'):
            ct = T.call_term(fn, bi)
            r = [b2 for b2, t2 in calls if t2['fd'] == FROM_RESIDUAL and ct[:60] in T.call_term(fn, b2)]
            ctx.ob('C13-D4', F, ct[:60], 'I/O error propagated with ? (short data is an error, not a short digest)', bool(r), site=loc(t.get('span')))
    # all read sizes are bounded by what is left of the range
    allocs = [bi for bi, t in calls if re.search(r'from_elem$', t['fd'])]
    for ab in allocs:
        term = T.call_term(fn, ab)
        ctx.ob('C13-D4', F, 'chunk buffer', 'sized min(bytes left in the range, max_hash_buf)', re.search(r'^from_elem\(0,min\([^,]+,NonZero::get\(', term) is not None, detail=term[:100], site=loc(fn.B[ab]['t'].get('span')))
    ctx.floor('chunk buffer allocations', len(allocs), 3, rule='C13-D4')
