#!/bin/sh
# Offline setup: build the fact-extractor driver and warm the dependency cache by one extraction.
set -e
cd "$(dirname "$0")"
export CARGO_NET_OFFLINE=true
(cd driver && cargo +nightly build --release --offline)
python3 rules/facts.py
