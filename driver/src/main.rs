// E0 fact extractor: rustc_private driver injected with RUSTC_WORKSPACE_WRAPPER.
// Dumps, per crate, one JSON-lines file with: fn/closure/const/static bodies (unoptimised MIR
// in a small normal form), ADTs, statics, trait impl maps. No analysis happens here.
#![feature(rustc_private)]
extern crate rustc_abi;
extern crate rustc_driver;
extern crate rustc_hir;
extern crate rustc_interface;
extern crate rustc_middle;
extern crate rustc_span;
use rustc_driver::{Callbacks, Compilation};
use rustc_hir::def::DefKind;
use rustc_hir::def_id::{DefId, LOCAL_CRATE};
use rustc_middle::mir::*;
use rustc_middle::ty::{self, Instance, TyCtxt, TypingEnv};
use rustc_span::Span;
use std::fmt::Write as _;
use std::io::Write;

fn esc(s: &str) -> String {
    let mut o = String::with_capacity(s.len() + 2);
    for c in s.chars() {
        match c {
            '"' => o.push_str("\\\""),
            '\\' => o.push_str("\\\\"),
            '\n' => o.push_str("\\n"),
            '\r' => o.push_str("\\r"),
            '\t' => o.push(' '),
            c if (c as u32) < 0x20 => {}
            c => o.push(c),
        }
    }
    o
}

fn span_js(tcx: TyCtxt<'_>, sp: Span) -> String {
    // location of the user-written call site (macro expansions are mapped to where they were invoked)
    let cs = sp.source_callsite();
    let sm = tcx.sess.source_map();
    let lo = sm.lookup_char_pos(cs.lo());
    let hi = sm.lookup_char_pos(cs.hi());
    let file = match &lo.file.name {
        rustc_span::FileName::Real(r) => r
            .local_path()
            .map(|p| p.to_string_lossy().to_string())
            .unwrap_or_else(|| format!("{:?}", lo.file.name)),
        other => format!("{:?}", other),
    };
    let mut mx = String::new();
    if sp.from_expansion() {
        let bt: Vec<String> = sp
            .macro_backtrace()
            .map(|e| match e.kind {
                rustc_span::ExpnKind::Macro(_, name) => name.to_string(),
                rustc_span::ExpnKind::Desugaring(d) => format!("desugar:{:?}", d),
                rustc_span::ExpnKind::AstPass(_) => "astpass".to_string(),
                rustc_span::ExpnKind::Root => "root".to_string(),
            })
            .collect();
        mx = format!(",\"mx\":[{}]", bt.iter().map(|m| format!("\"{}\"", esc(m))).collect::<Vec<_>>().join(","));
    }
    format!(
        "{{\"file\":\"{}\",\"l\":{},\"c\":{},\"l2\":{},\"c2\":{}{}}}",
        esc(&file),
        lo.line,
        lo.col.0 + 1,
        hi.line,
        hi.col.0 + 1,
        mx
    )
}

fn place_js(p: &Place<'_>) -> String {
    let proj: Vec<String> = p
        .projection
        .iter()
        .map(|e| match e {
            ProjectionElem::Deref => "\"*\"".to_string(),
            ProjectionElem::Field(f, _) => format!("\".{}\"", f.index()),
            ProjectionElem::Downcast(n, i) => {
                format!("\"as {}#{}\"", n.map(|s| s.to_string()).unwrap_or_default(), i.index())
            }
            ProjectionElem::Index(l) => format!("\"[_{}]\"", l.index()),
            _ => "\"[]\"".to_string(),
        })
        .collect();
    format!("{{\"l\":{},\"p\":[{}]}}", p.local.index(), proj.join(","))
}

fn op_js<'tcx>(tcx: TyCtxt<'tcx>, o: &Operand<'tcx>) -> String {
    match o {
        Operand::Copy(p) => place_js(p),
        Operand::Move(p) => {
            let s = place_js(p);
            format!("{},\"mv\":1}}", &s[..s.len() - 1])
        }
        Operand::Constant(c) => {
            let mut extra = String::new();
            match c.const_.ty().kind() {
                ty::FnDef(did, args) => {
                    let _ = write!(extra, ",\"fn\":\"{}\",\"fd\":\"{}\"", esc(&tcx.def_path_str_with_args(*did, args)), esc(&tcx.def_path_str(*did)));
                }
                ty::Closure(did, _) => {
                    let _ = write!(extra, ",\"closure\":\"{}\"", esc(&tcx.def_path_str(*did)));
                }
                _ => {}
            }
            // named const / static item referenced
            if let Const::Unevaluated(u, _) = &c.const_ {
                let _ = write!(extra, ",\"item\":\"{}\"", esc(&tcx.def_path_str(u.def)));
                if let Some(pi) = u.promoted {
                    let _ = write!(extra, ",\"promoted\":1,\"pidx\":{}", pi.index());
                }
            }
            if let Some(did) = c.check_static_ptr(tcx) {
                let _ = write!(extra, ",\"static\":\"{}\"", esc(&tcx.def_path_str(did)));
            }
            format!("{{\"c\":\"{}\",\"ty\":\"{}\"{}}}", esc(&format!("{:?}", c)), esc(&format!("{:?}", c.const_.ty())), extra)
        }
        #[allow(unreachable_patterns)]
        _ => "{\"c\":\"?\"}".to_string(),
    }
}

fn closure_of<'tcx>(tcx: TyCtxt<'tcx>, t: ty::Ty<'tcx>) -> Option<String> {
    match t.peel_refs().kind() {
        ty::Closure(did, _) | ty::Coroutine(did, _) | ty::CoroutineClosure(did, _) => Some(tcx.def_path_str(*did)),
        _ => None,
    }
}

fn dump_body<'tcx>(tcx: TyCtxt<'tcx>, def: rustc_hir::def_id::LocalDefId, kind: DefKind, body: &Body<'tcx>, stolen: bool, out: &mut String) {
    let did = def.to_def_id();
    let path = tcx.def_path_str(did);
    let typing_env = TypingEnv::post_analysis(tcx, did);
    let mut meta = String::new();
    let k = match kind {
        DefKind::Fn => "fn",
        DefKind::AssocFn => "assoc",
        DefKind::Closure => "closure",
        DefKind::Const { .. } | DefKind::AssocConst { .. } => "const",
        DefKind::Static { .. } => "static",
        _ => "other",
    };
    if matches!(kind, DefKind::Fn | DefKind::AssocFn) {
        let vis = tcx.visibility(did);
        let v = if vis.is_public() { "pub".to_string() } else { format!("{:?}", vis) };
        let _ = write!(meta, ",\"vis\":\"{}\"", esc(&v));
        let sig = tcx.fn_sig(did).skip_binder().skip_binder();
        let _ = write!(meta, ",\"abi\":\"{}\"", esc(&format!("{:?}", sig.abi())));
        let attrs = tcx.codegen_fn_attrs(did);
        if attrs.flags.contains(rustc_middle::middle::codegen_fn_attrs::CodegenFnAttrFlags::NO_MANGLE) || attrs.symbol_name.is_some() {
            meta.push_str(",\"no_mangle\":1");
        }
        if tcx.lookup_deprecation(did).is_some() {
            meta.push_str(",\"deprecated\":1");
        }
        if let Some(ai) = tcx.opt_associated_item(did) {
            if let Some(tdid) = ai.trait_item_def_id() {
                let _ = write!(meta, ",\"trait_item\":\"{}\"", esc(&tcx.def_path_str(tdid)));
            }
            let parent = tcx.parent(did);
            if matches!(tcx.def_kind(parent), DefKind::Impl { .. }) {
                let st = tcx.type_of(parent).skip_binder();
                let _ = write!(meta, ",\"self_ty\":\"{}\"", esc(&format!("{:?}", st)));
            }
        }
    }
    if let Some(p) = tcx.opt_parent(did) {
        let _ = write!(meta, ",\"parent\":\"{}\"", esc(&tcx.def_path_str(p)));
    }
    let mut locals: Vec<String> = vec![];
    for (_i, l) in body.local_decls.iter_enumerated() {
        let mut cl = String::new();
        if let Some(c) = closure_of(tcx, l.ty) {
            cl = format!(",\"closure\":\"{}\"", esc(&c));
        }
        if let ty::FnDef(fd, args) = l.ty.peel_refs().kind() {
            cl = format!(",\"fnitem\":\"{}\",\"fnitem_d\":\"{}\"", esc(&tcx.def_path_str_with_args(*fd, args)), esc(&tcx.def_path_str(*fd)));
        }
        locals.push(format!("{{\"ty\":\"{}\"{}}}", esc(&format!("{:?}", l.ty)), cl));
    }
    let mut names: Vec<String> = vec![];
    for v in body.var_debug_info.iter() {
        if let VarDebugInfoContents::Place(p) = &v.value {
            names.push(format!("[\"{}\",{}]", esc(&v.name.to_string()), place_js(p)));
        }
    }
    let mut blocks: Vec<String> = vec![];
    for (_bi, bb) in body.basic_blocks.iter_enumerated() {
        let mut stmts: Vec<String> = vec![];
        for s in bb.statements.iter() {
            if let StatementKind::Assign(b) = &s.kind {
                let (dst, rv) = (&b.0, &b.1);
                let mut want_span = dst.local.index() == 0;
                let r = match rv {
                    Rvalue::Use(o, ..) => format!("{{\"k\":\"use\",\"o\":{}", op_js(tcx, o)),
                    Rvalue::Ref(_, bk, p) => format!("{{\"k\":\"ref\",\"mut\":{},\"pl\":{}", if matches!(bk, BorrowKind::Mut { .. }) { 1 } else { 0 }, place_js(p)),
                    Rvalue::RawPtr(_, p) => format!("{{\"k\":\"rawptr\",\"pl\":{}", place_js(p)),
                    Rvalue::Cast(ck, o, t) => format!("{{\"k\":\"cast\",\"ck\":\"{}\",\"o\":{},\"ty\":\"{}\"", esc(&format!("{:?}", ck)), op_js(tcx, o), esc(&format!("{:?}", t))),
                    Rvalue::BinaryOp(op, ab) => {
                        want_span = true;
                        format!("{{\"k\":\"bin\",\"op\":\"{:?}\",\"a\":{},\"b\":{}", op, op_js(tcx, &ab.0), op_js(tcx, &ab.1))
                    }
                    Rvalue::UnaryOp(op, a) => format!("{{\"k\":\"un\",\"op\":\"{:?}\",\"a\":{}", op, op_js(tcx, a)),
                    Rvalue::Discriminant(p) => format!("{{\"k\":\"discr\",\"pl\":{}", place_js(p)),
                    Rvalue::Aggregate(k, ops) => {
                        want_span = true;
                        let kd = match &**k {
                            AggregateKind::Adt(adid, vi, _, _, _) => {
                                let adt = tcx.adt_def(*adid);
                                let vn = adt.variant(*vi).name.to_string();
                                format!("\"adt\":\"{}\",\"variant\":\"{}\",\"vi\":{}", esc(&tcx.def_path_str(*adid)), esc(&vn), vi.index())
                            }
                            AggregateKind::Closure(cd, _) | AggregateKind::Coroutine(cd, _) | AggregateKind::CoroutineClosure(cd, _) => format!("\"closure\":\"{}\"", esc(&tcx.def_path_str(*cd))),
                            AggregateKind::Tuple => "\"tuple\":true".to_string(),
                            AggregateKind::Array(_) => "\"array\":true".to_string(),
                            _ => "\"other\":true".to_string(),
                        };
                        format!("{{\"k\":\"agg\",{},\"ops\":[{}]", kd, ops.iter().map(|o| op_js(tcx, o)).collect::<Vec<_>>().join(","))
                    }
                    other => format!("{{\"k\":\"other\",\"s\":\"{}\"", esc(&format!("{:?}", other))),
                };
                let sp = if want_span { format!(",\"span\":{}", span_js(tcx, s.source_info.span)) } else { String::new() };
                stmts.push(format!("[{},{}{}}}]", place_js(dst), r, sp));
            }
        }
        let t = bb.terminator();
        let span = span_js(tcx, t.source_info.span);
        let tj = match &t.kind {
            TerminatorKind::Call { func, args, destination, target, .. } => {
                let mut f = String::new();
                let mut res = String::new();
                if let Operand::Constant(c) = func {
                    if let ty::FnDef(fdid, fargs) = c.const_.ty().kind() {
                        f = format!("\"f\":\"{}\",\"fd\":\"{}\"", esc(&tcx.def_path_str_with_args(*fdid, fargs)), esc(&tcx.def_path_str(*fdid)));
                        // resolve trait calls to the implementing instance where types are concrete
                        if tcx.trait_of_assoc(*fdid).is_some() {
                            if let Ok(nargs) = tcx.try_normalize_erasing_regions(typing_env, ty::Unnormalized::new_wip(*fargs)) {
                                if let Ok(Some(inst)) = Instance::try_resolve(tcx, typing_env, *fdid, nargs) {
                                    let rd = inst.def_id();
                                    if rd != *fdid {
                                        res = format!(",\"r\":\"{}\"", esc(&tcx.def_path_str(rd)));
                                    }
                                }
                            }
                        }
                        if !fdid.is_local() {
                            f.push_str(",\"ext\":1");
                        }
                    }
                }
                if f.is_empty() {
                    f = format!("\"f\":\"<indirect>\",\"fd\":\"<indirect>\",\"ind\":{}", op_js(tcx, func));
                }
                let argtys: Vec<String> = args.iter().map(|a| format!("\"{}\"", esc(&format!("{:?}", a.node.ty(&body.local_decls, tcx))))).collect();
                format!(
                    "{{\"k\":\"call\",{}{},\"args\":[{}],\"at\":[{}],\"dest\":{},\"t\":{},\"span\":{}}}",
                    f,
                    res,
                    args.iter().map(|a| op_js(tcx, &a.node)).collect::<Vec<_>>().join(","),
                    argtys.join(","),
                    place_js(destination),
                    target.map(|b| b.index().to_string()).unwrap_or("null".into()),
                    span
                )
            }
            TerminatorKind::SwitchInt { discr, targets } => format!(
                "{{\"k\":\"switch\",\"d\":{},\"ts\":[{}],\"o\":{},\"span\":{}}}",
                op_js(tcx, discr),
                targets.iter().map(|(v, b)| format!("[{},{}]", v, b.index())).collect::<Vec<_>>().join(","),
                targets.otherwise().index(),
                span
            ),
            TerminatorKind::Goto { target } => format!("{{\"k\":\"goto\",\"t\":{}}}", target.index()),
            TerminatorKind::Return => format!("{{\"k\":\"ret\",\"span\":{}}}", span),
            TerminatorKind::Drop { target, place, .. } => format!("{{\"k\":\"goto\",\"t\":{},\"drop\":{}}}", target.index(), place_js(place)),
            TerminatorKind::Assert { target, msg, .. } => {
                let m = match &**msg {
                    AssertKind::BoundsCheck { .. } => "bounds",
                    AssertKind::Overflow(..) => "overflow",
                    AssertKind::OverflowNeg(..) => "overflow",
                    AssertKind::DivisionByZero(..) => "divzero",
                    AssertKind::RemainderByZero(..) => "divzero",
                    _ => "other",
                };
                format!("{{\"k\":\"goto\",\"t\":{},\"assert\":\"{}\",\"span\":{}}}", target.index(), m, span)
            }
            TerminatorKind::FalseEdge { real_target, .. } => format!("{{\"k\":\"goto\",\"t\":{}}}", real_target.index()),
            TerminatorKind::FalseUnwind { real_target, .. } => format!("{{\"k\":\"goto\",\"t\":{}}}", real_target.index()),
            TerminatorKind::Yield { resume, .. } => format!("{{\"k\":\"goto\",\"t\":{},\"yield\":1}}", resume.index()),
            TerminatorKind::Unreachable => "{\"k\":\"stop\",\"why\":\"unreachable\"}".to_string(),
            _ => "{\"k\":\"stop\"}".to_string(),
        };
        blocks.push(format!("{{\"s\":[{}],\"t\":{}}}", stmts.join(","), tj));
    }
    let ret_ty = format!("{:?}", body.local_decls[RETURN_PLACE].ty);
    let _ = writeln!(
        out,
        "{{\"rec\":\"body\",\"f\":\"{}\",\"kind\":\"{}\"{},\"stolen\":{},\"span\":{},\"argc\":{},\"ret\":\"{}\",\"locals\":[{}],\"names\":[{}],\"blocks\":[{}]}}",
        esc(&path),
        k,
        meta,
        if stolen { 1 } else { 0 },
        span_js(tcx, body.span),
        body.arg_count,
        esc(&ret_ty),
        locals.join(","),
        names.join(","),
        blocks.join(",")
    );
}

struct Cb;
impl Callbacks for Cb {
    fn after_expansion<'tcx>(&mut self, _c: &rustc_interface::interface::Compiler, tcx: TyCtxt<'tcx>) -> Compilation {
        let krate = tcx.crate_name(LOCAL_CRATE).to_string();
        let dir = match std::env::var("VDRIVER_OUT") {
            Ok(d) => d,
            Err(_) => return Compilation::Continue,
        };
        let mut out = String::new();
        let mut nbodies = 0usize;
        // Phase 1: clone every unoptimised body *before* running any other query. Queries such as type_of on an
        // async fn's opaque return type run borrowck, which steals mir_built of the defining body; taking all
        // bodies first keeps the source-shaped MIR for (almost) every function.
        let mut taken: Vec<(rustc_hir::def_id::LocalDefId, DefKind, Option<Body<'tcx>>)> = Vec::new();
        for def in tcx.hir_body_owners() {
            let kind = tcx.def_kind(def);
            if !matches!(kind, DefKind::Fn | DefKind::AssocFn | DefKind::Closure | DefKind::Const { .. } | DefKind::AssocConst { .. } | DefKind::Static { .. }) {
                continue;
            }
            let st = tcx.mir_built(def);
            if st.is_stolen() {
                taken.push((def, kind, None));
            } else {
                let b: Body<'tcx> = st.borrow().clone();
                taken.push((def, kind, Some(b)));
            }
        }
        for (def, kind, b) in taken.iter() {
            let (def, kind) = (*def, *kind);
            match b {
                Some(body) => {
                    dump_body(tcx, def, kind, body, false, &mut out);
                    nbodies += 1;
                }
                None => {
                    if matches!(kind, DefKind::Fn | DefKind::AssocFn | DefKind::Closure) {
                        let body = tcx.optimized_mir(def.to_def_id());
                        dump_body(tcx, def, kind, body, true, &mut out);
                    } else {
                        let body = tcx.mir_for_ctfe(def.to_def_id());
                        dump_body(tcx, def, kind, body, true, &mut out);
                    }
                    nbodies += 1;
                }
            }
        }
        // promoted constants of the handler tables (`fn supported_types(&self) -> &[&str] { &["gif", ..] }`): needed to
        // compare the sniffer's container ids with the handler tables at compile-time values
        for (def, kind, _b) in taken.iter() {
            if !matches!(kind, DefKind::Fn | DefKind::AssocFn) {
                continue;
            }
            let path = tcx.def_path_str(def.to_def_id());
            if !path.ends_with("::supported_types") {
                continue;
            }
            let proms = tcx.promoted_mir(def.to_def_id());
            for (pi, pb) in proms.iter_enumerated() {
                let mut vals: Vec<String> = vec![];
                for bb in pb.basic_blocks.iter() {
                    for st in bb.statements.iter() {
                        if let StatementKind::Assign(b) = &st.kind {
                            match &b.1 {
                                Rvalue::Aggregate(_, ops) => {
                                    for o in ops.iter() {
                                        if let Operand::Constant(c) = o {
                                            vals.push(format!("\"{}\"", esc(&format!("{:?}", c))));
                                        }
                                    }
                                }
                                Rvalue::Use(Operand::Constant(c), ..) => {
                                    vals.push(format!("\"{}\"", esc(&format!("{:?}", c))));
                                }
                                _ => {}
                            }
                        }
                    }
                }
                let _ = writeln!(out, "{{\"rec\":\"promoted\",\"f\":\"{}\",\"pidx\":{},\"consts\":[{}]}}", esc(&path), pi.index(), vals.join(","));
            }
        }
        // ADTs, statics, impls
        let items = tcx.hir_crate_items(());
        for ldid in items.definitions() {
            let did: DefId = ldid.to_def_id();
            match tcx.def_kind(did) {
                DefKind::Struct | DefKind::Enum | DefKind::Union => {
                    let adt = tcx.adt_def(did);
                    let mut vs: Vec<String> = vec![];
                    for v in adt.variants().iter() {
                        let fs: Vec<String> = v
                            .fields
                            .iter()
                            .map(|f| format!("[\"{}\",\"{}\",\"{}\"]", esc(&f.name.to_string()), esc(&format!("{:?}", tcx.type_of(f.did).skip_binder())), if f.vis.is_public() { "pub" } else { "priv" }))
                            .collect();
                        vs.push(format!("{{\"name\":\"{}\",\"fields\":[{}]}}", esc(&v.name.to_string()), fs.join(",")));
                    }
                    let _ = writeln!(out, "{{\"rec\":\"adt\",\"name\":\"{}\",\"kind\":\"{:?}\",\"vis\":\"{}\",\"variants\":[{}],\"span\":{}}}", esc(&tcx.def_path_str(did)), tcx.def_kind(did), if tcx.visibility(did).is_public() { "pub" } else { "restricted" }, vs.join(","), span_js(tcx, tcx.def_span(did)));
                }
                DefKind::Static { mutability, nested, .. } => {
                    if nested {
                        continue;
                    }
                    let t = tcx.type_of(did).skip_binder();
                    let env = TypingEnv::post_analysis(tcx, did);
                    let freeze = t.is_freeze(tcx, env);
                    let _ = writeln!(out, "{{\"rec\":\"static\",\"name\":\"{}\",\"ty\":\"{}\",\"mut\":{},\"freeze\":{},\"span\":{}}}", esc(&tcx.def_path_str(did)), esc(&format!("{:?}", t)), if mutability.is_mut() { 1 } else { 0 }, if freeze { 1 } else { 0 }, span_js(tcx, tcx.def_span(did)));
                }
                DefKind::Impl { of_trait: true } => {
                    let tr = tcx.impl_trait_ref(did).skip_binder();
                    let self_ty = format!("{:?}", tr.self_ty());
                    let trait_path = tcx.def_path_str(tr.def_id);
                    let mut ms: Vec<String> = vec![];
                    #[allow(rustc::potential_query_instability)]
                    let mut pairs: Vec<(String, String)> = tcx.impl_item_implementor_ids(did).items().map(|(a, b)| (tcx.def_path_str(*a), tcx.def_path_str(*b))).into_sorted_stable_ord();
                    for (a, b) in pairs.drain(..) {
                        ms.push(format!("[\"{}\",\"{}\"]", esc(&a), esc(&b)));
                    }
                    let _ = writeln!(out, "{{\"rec\":\"impl\",\"trait\":\"{}\",\"self_ty\":\"{}\",\"methods\":[{}],\"span\":{}}}", esc(&trait_path), esc(&self_ty), ms.join(","), span_js(tcx, tcx.def_span(did)));
                }
                _ => {}
            }
        }
        // thread_local / other: nothing special; they expand to statics + fns.
        std::fs::create_dir_all(&dir).ok();
        let tmp = format!("{}/.{}.{}.tmp", dir, krate, std::process::id());
        let fin = format!("{}/{}.facts.jsonl", dir, krate);
        // a crate name can be compiled more than once (lib + bin of the same name, build scripts):
        // append the crate type to keep them apart
        let ctype = tcx.crate_types().iter().map(|c| format!("{:?}", c)).collect::<Vec<_>>().join("+");
        let fin = if ctype.contains("Executable") { format!("{}/{}.bin.facts.jsonl", dir, krate) } else { fin };
        let mut f = std::fs::File::create(&tmp).unwrap();
        f.write_all(out.as_bytes()).unwrap();
        drop(f);
        std::fs::rename(&tmp, &fin).unwrap();
        eprintln!("VDRIVER crate={} type={} bodies={} bytes={}", krate, ctype, nbodies, out.len());
        Compilation::Continue
    }
}

fn main() {
    let mut args: Vec<String> = std::env::args().collect();
    // RUSTC_WORKSPACE_WRAPPER passes the real rustc path as argv[1]
    args.remove(1);
    rustc_driver::run_compiler(&args, &mut Cb);
}
